"""C10 bounded stand-in, table part: generated PIN tables (tab-delimited text and Parquet) through
mokapot.parsers.pin.read_pin / read_percolator.

A case is a small JSON-able spec (column names in file order, which of them are reserved / carry NaN, label
encoding, chunk constants, workers, format).  The table content is a pure function of the spec.  The oracle is
derived from the spec following the property statement and never looks at the parser.
"""
import json
import logging
import random
import warnings

from harness.common import Check, args, emit
from harness.datasets import scratch

logging.disable(logging.CRITICAL)
warnings.filterwarnings("ignore")

REQUIRED = ["specid", "label", "scannr", "peptide", "proteins"]
PIN_SPELLING = {"specid": "SpecId", "label": "Label", "scannr": "ScanNr", "peptide": "Peptide",
                "proteins": "Proteins", "expmass": "ExpMass", "calcmass": "CalcMass", "ret_time": "ret_time",
                "filename": "filename", "charge": "charge", "modifiedpeptide": "ModifiedPeptide",
                "precursor": "Precursor", "peptidegroup": "PeptideGroup"}
SPECTRUM_OPTIONAL = ["filename", "ret_time", "expmass"]            # the optional parts of the spectrum key
OTHER_OPTIONAL = ["calcmass", "charge", "modifiedpeptide", "precursor", "peptidegroup"]
# explicit (user-named) optional columns: read_pin(filename_column=..., ...) - exact spelling, no case folding
CUSTOM = {"filename": ("filename_column", "RawFile"), "ret_time": ("rt_column", "RT"),
          "expmass": ("expmass_column", "ObsMass"), "calcmass": ("calcmass_column", "TheoMass")}
FEATURE_NAMES = ["lnrSp", "deltLCn", "deltCn", "Xcorr", "Sp", "IonFrac", "Mass", "PepLen", "Charge2", "Charge3",
                 "enzN", "enzC", "enzInt", "lnNumSP", "dM", "absdM", "lnExpMass", "labels", "scan", "Peptides",
                 "RefactoredXCorr", "NegLog10PValue", "file_name", "rettime", "specIdx"]

ASSUMPTIONS = [
    "one protein per row (no tab-separated protein lists), no DefaultDirection line",
    "a lone 'charge' column is left out of the feature comparison (read_percolator looks for the optional charge "
    "column under the name 'charge_column', so dataset.charge_column stays None; the statement is silent on it)",
    "feature order = file order is required as a separate case id ('feature-order'); spectrum-key order is free",
    "read_percolator_missing_cells: a missing value is an empty cell or the text NaN in tab-delimited input, a null / "
    "NaN in Parquet; a feature column is numeric (whole numbers, 0/1 flags, reals or a mixture) or a true/false flag "
    "column (text True/False, Parquet bool), never other text; a column whose every cell is missing is a column with "
    "missing values like any other",
    "read_percolator_rejects: stray labels are whole numbers of a numeric label column within the int64 range "
    "(no fractional, text or > 2**63 labels)",
]


def _casing(rnd, canon):
    style = rnd.choice(["pin", "lower", "upper", "mixed"])
    if style == "pin":
        return PIN_SPELLING[canon]
    if style == "lower":
        return canon.lower()
    if style == "upper":
        return canon.upper()
    return "".join(ch.upper() if rnd.random() < 0.5 else ch.lower() for ch in canon)


def make_spec(seed, i, n_feat, n_spec_opt, chunk_cols, fmt):
    """spec of case i: n_feat feature columns, n_spec_opt (0..3) optional spectrum-key columns."""
    rnd = random.Random("c10t-%d-%d" % (seed, i))
    roles = {}                      # column name -> role (canonical reserved name or "feature")
    kwargs = {}
    present = list(REQUIRED) + rnd.sample(SPECTRUM_OPTIONAL, n_spec_opt) \
        + [c for c in OTHER_OPTIONAL if rnd.random() < 0.3]
    custom = rnd.random() < 0.2
    reserved_cols = []
    for canon in present:
        if custom and canon in CUSTOM:
            kw, name = CUSTOM[canon]
            kwargs[kw] = name
        else:
            name = _casing(rnd, canon)
        roles[name] = canon
        reserved_cols.append(name)
    feats = []
    pool = list(FEATURE_NAMES)
    rnd.shuffle(pool)
    for j in range(n_feat):
        name = pool[j] if j < len(pool) and rnd.random() < 0.6 else "f%d" % j
        if name.lower() in {r.lower() for r in roles} or name in feats:
            name = "f%d" % j
        feats.append(name)
        roles[name] = "feature"
    if rnd.random() < 0.5:          # the usual PIN layout: ids, features, peptide, proteins
        tail = [c for c in reserved_cols if roles[c] in ("peptide", "proteins")]
        head = [c for c in reserved_cols if c not in tail]
        cols = head + feats + tail
    else:
        cols = reserved_cols + feats
        rnd.shuffle(cols)
    float_feats = [f for j, f in enumerate(feats) if j % 3 != 2]          # every third feature is an int column
    nan_cols = rnd.sample(float_feats, min(len(float_feats), rnd.choice([0, 0, 1, 2])))
    return {"seed": seed, "i": i, "fmt": fmt, "cols": cols, "roles": roles, "kwargs": kwargs,
            "nan_cols": sorted(nan_cols, key=cols.index), "int_feats": [f for f in feats if f not in float_feats],
            "label_enc": rnd.choice(["pm1", "10", "bool"]), "rows": rnd.randint(5, 30),
            "chunk_cols": chunk_cols, "chunk_rows": rnd.choice([2, 7, 2000000]), "workers": rnd.choice([1, 2]),
            "nan_last_row_only": rnd.random() < 0.3}


def build_table(spec):
    """the DataFrame of a spec (pure function of the spec)"""
    import numpy as np
    import pandas as pd
    rnd = random.Random("c10t-data-%d-%d" % (spec["seed"], spec["i"]))
    n = spec["rows"]
    is_target = [rnd.random() < 0.5 for _ in range(n)]
    if n >= 2:
        is_target[0], is_target[1] = True, False
    data = {}
    for col in spec["cols"]:
        role = spec["roles"][col]
        if role == "specid":
            v = ["psm_%d" % r for r in range(n)]
        elif role == "label":
            enc = spec.get("labels") or {"pm1": (1, -1), "10": (1, 0), "bool": (True, False)}[spec["label_enc"]]
            v = [enc[0] if t else enc[1] for t in is_target]
            if "bad_label" in spec:
                v[spec["bad_label"][0] % n] = spec["bad_label"][1]
        elif role == "scannr":
            v = [100 + r // 2 for r in range(n)]
        elif role == "peptide":
            v = ["K.PEP%dTIDE.R" % rnd.randint(0, 9) for _ in range(n)]
        elif role == "proteins":
            v = [("prot%d" if t else "decoy_prot%d") % rnd.randint(0, 4) for t in is_target]
        elif role == "filename":
            v = ["run%d.mzML" % (r % 2) for r in range(n)]
        elif role in ("ret_time", "expmass", "calcmass"):
            v = [round(rnd.uniform(300, 3000), 4) for _ in range(n)]
        elif role == "charge":
            v = [rnd.randint(2, 4) for _ in range(n)]
        elif role in ("modifiedpeptide", "precursor", "peptidegroup"):
            v = ["%s_%d" % (role[:3], rnd.randint(0, 6)) for _ in range(n)]
        elif col in spec.get("plan", {}):
            v = _planned_column(spec, col, n)
        elif col in spec["int_feats"]:
            v = [rnd.randint(0, 9) for _ in range(n)]
        else:
            v = [round(rnd.gauss(0, 3), 5) for _ in range(n)]
            if col in spec["nan_cols"]:
                where = [n - 1] if spec["nan_last_row_only"] else rnd.sample(range(n), rnd.randint(1, 3))
                for r in where:
                    v[r] = np.nan
        data[col] = v
    return pd.DataFrame(data, columns=spec["cols"]), is_target


def write_table(spec, df, d):
    path = d / ("t%d.%s" % (spec["i"], "parquet" if spec["fmt"] == "parquet" else "pin.tsv"))
    if spec["fmt"] == "parquet":
        df.to_parquet(path, index=False, row_group_size=spec.get("row_group", None))
    else:
        df.to_csv(path, sep="\t", index=False, na_rep=spec.get("na_rep", ""))
    return path


def parse(spec, path):
    import mokapot.parsers.pin as pin
    old = pin.CHUNK_SIZE_COLUMNS_FOR_DROP_COLUMNS, pin.CHUNK_SIZE_ROWS_FOR_DROP_COLUMNS
    pin.CHUNK_SIZE_COLUMNS_FOR_DROP_COLUMNS = spec["chunk_cols"]
    pin.CHUNK_SIZE_ROWS_FOR_DROP_COLUMNS = spec["chunk_rows"]
    try:
        if spec["i"] % 2:
            return pin.read_percolator(path, max_workers=spec["workers"], **spec["kwargs"])
        out = pin.read_pin(path, max_workers=spec["workers"], **spec["kwargs"])
        if not (isinstance(out, list) and len(out) == 1):
            raise AssertionError("read_pin returned %r for one file" % type(out))
        return out[0]
    finally:
        pin.CHUNK_SIZE_COLUMNS_FOR_DROP_COLUMNS, pin.CHUNK_SIZE_ROWS_FOR_DROP_COLUMNS = old


def _col(spec, role):
    for c in spec["cols"]:
        if spec["roles"][c] == role:
            return c
    return None


def run_case(spec, d):
    """-> list of (case, what) violations of the statement on this well-formed table"""
    import numpy as np
    df, is_target = build_table(spec)
    path = write_table(spec, df, d)
    k = 2 + sum(1 for r in SPECTRUM_OPTIONAL if _col(spec, r))
    n_feat = sum(1 for c in spec["cols"] if spec["roles"][c] == "feature")
    ctx = "%d features, %d identifier columns, column chunk %d (residue %d), %s" % (
        n_feat, k, spec["chunk_cols"], (n_feat + k) % spec["chunk_cols"], spec["fmt"])
    try:
        ds = parse(spec, path)
    except Exception as e:
        import re
        slug = "-".join(re.sub(r"'[^']*'|[^A-Za-z ]", " ", str(e)).lower().split()[:4])
        return [("parse-fails:%s:%s" % (type(e).__name__, slug),
                 "%s: %s [%s]" % (type(e).__name__, str(e)[:120], ctx))]
    finally:
        try:
            path.unlink()
        except OSError:
            pass
    bad = []
    # one entry per input row, in file order
    sp = ds.spectra_dataframe
    if len(sp) != len(df):
        bad.append(("row-count", "%d entries for %d input rows [%s]" % (len(sp), len(df), ctx)))
        return bad
    # spectrum key
    want_key = [_col(spec, "scannr")] + [_col(spec, r) for r in SPECTRUM_OPTIONAL if _col(spec, r)]
    got_key = list(ds.spectrum_columns)
    if sorted(got_key) != sorted(want_key):
        bad.append(("spectrum-key", "spectrum_columns %r, expected %r [%s]" % (got_key, want_key, ctx)))
    for c in want_key:
        if c not in sp.columns:
            bad.append(("spectrum-key", "spectra_dataframe lacks %r [%s]" % (c, ctx)))
            continue
        got = sp[c].tolist()
        if got != df[c].tolist():
            bad.append(("row-order", "column %r of spectra_dataframe differs from the file (first rows %r vs %r) [%s]"
                        % (c, got[:4], df[c].tolist()[:4], ctx)))
    # targets
    tc = ds.target_column
    if tc != _col(spec, "label") or tc not in sp.columns:
        bad.append(("target-column", "target_column %r, expected %r [%s]" % (tc, _col(spec, "label"), ctx)))
    else:
        got = sp[tc]
        if got.dtype != bool:
            bad.append(("targets", "target column has dtype %s [%s]" % (got.dtype, ctx)))
        elif got.tolist() != is_target:
            bad.append(("targets", "targets %r..., expected %r... (labels %s) [%s]"
                        % (got.tolist()[:6], is_target[:6], spec["label_enc"], ctx)))
    # features: the non-reserved columns without a missing value (a lone charge column is left out of the comparison:
    # the statement does not say on which side it belongs)
    amb = _col(spec, "charge")
    want = [c for c in spec["cols"] if spec["roles"][c] == "feature" and c not in spec["nan_cols"]]
    got = [c for c in ds.feature_columns if c != amb]
    if sorted(got) != sorted(want) and "plan" in spec:
        # planned tables: one violation per class (value kind, zone of the missing cell) of misjudged column
        plan = spec["plan"]
        seen = set()
        for c in spec["cols"]:
            if c in plan and (c in got) != (c in want):
                kind, pos = plan[c][0], plan[c][1]
                case = ("missing-cell-column-kept:%s:%s" % (kind, pos)) if c in got else \
                    ("complete-column-dropped:%s" % kind)
                if case not in seen:
                    seen.add(case)
                    bad.append((case, "column %r (%s%s) %s [%s, row chunk %d, %d rows]" % (
                        c, kind, "" if pos == "none" else ", missing cell in " + pos,
                        "is a feature although it has a missing cell" if c in got else "is not among the features",
                        ctx, spec["chunk_rows"], spec["rows"])))
        other = [c for c in got if c not in plan]
        if other:
            bad.append(("reserved-column-as-feature", "feature_columns: unexpected %r [%s]" % (other, ctx)))
    elif sorted(got) != sorted(want):
        extra = [c for c in got if c not in want]
        lost = [c for c in want if c not in got]
        if any(c in spec["nan_cols"] for c in extra):
            case = "nan-column-kept"
        elif any(spec["roles"].get(c) != "feature" for c in extra):
            case = "reserved-column-as-feature"
        elif lost:
            case = "feature-lost"
        else:
            case = "feature-set"
        bad.append((case, "feature_columns: unexpected %r, missing %r [%s]" % (extra, lost, ctx)))
    elif got != want:
        bad.append(("feature-order", "feature_columns %r are not in file order %r [%s]" % (got[:6], want[:6], ctx)))
    return bad


# ----------------------------------------------------------------------------------------------- enumeration
def cases(tier, seed):
    """(n_feat, n_spec_opt, chunk_cols, fmt) for every case of the tier"""
    out = []
    if tier == "quick":
        grid = [(c, n) for c in (3, 4, 5, 19) for n in range(1, 26)]
    else:
        grid = [(19, n) for n in range(1, 61)] + [(c, n) for c in (3, 4, 5, 7, 19) for n in range(1, 26)]
        grid = grid * 3
    j = 0
    for c, n in grid:
        for opt in range(4):
            fmts = ("text", "parquet") if tier != "quick" else (("text", "parquet")[(j + opt) % 2],)
            for fmt in fmts:
                out.append((n, opt, c, fmt))
        j += 1
    return out


def _payload(spec):
    p = {"spec": spec}
    if len(json.dumps(p)) > 1900:
        slim = {k: v for k, v in spec.items() if k not in ("roles", "cols", "plan", "nan_cols")}
        slim["n_feat"] = sum(1 for c in spec["cols"] if spec["roles"][c] == "feature")
        slim["n_spec_opt"] = sum(1 for r in SPECTRUM_OPTIONAL if _col(spec, r))
        p = {"regen": slim}
    return p


def _nontrivial(spec):
    n_feat = sum(1 for c in spec["cols"] if spec["roles"][c] == "feature")
    k = 2 + sum(1 for r in SPECTRUM_OPTIONAL if _col(spec, r))
    return n_feat + k > spec["chunk_cols"] or bool(spec["nan_cols"])


def check_read_percolator(tier, seed):
    todo = cases(tier, seed)
    ck = Check("read_percolator_tables", "mokapot.parsers.pin.read_pin / read_percolator",
               ("exhaustive over (column chunk size c, feature count n, identifier count k): c in %s x n in 1..25%s x "
                "k in 2..5 (every residue of n+k modulo c), %s; per case random (seed %d): column order (PIN layout or "
                "shuffled), casing of the reserved names, optional calcmass/charge/rollup-level columns, user-named "
                "optional columns, labels 1/-1 | 1/0 | bool, NaN in 0..2 feature columns, 5..30 rows, row chunk 2|7|2e6, "
                "max_workers 1|2; %d cases")
               % ("{3,4,5,19}" if tier == "quick" else "{3,4,5,7,19}", "" if tier == "quick" else " (1..60 for c=19)",
                  "text or Parquet alternating" if tier == "quick" else "text and Parquet, 3 random repetitions",
                  seed, len(todo)),
               "oracle from the case spec: one entry per row in file order, targets = rows labelled 1/True, spectrum key "
               "= scan + available filename/ret_time/expmass, features = non-reserved columns without NaN (file order); "
               "non-trivial = more than one column chunk or a NaN column")
    with scratch("c10t_") as d:
        jobs = [(seed, i, n, opt, c, fmt, str(d)) for i, (n, opt, c, fmt) in enumerate(todo)]
        for (seed_, i, n, opt, c, fmt, _), (spec, bad) in zip(jobs, _map(_job, jobs)):
            ck.case((seed, i, n, opt, c, fmt), nontrivial=_nontrivial(spec))
            for case, what in bad:
                ck.violation(case, what, _payload(spec))
    return ck


def _job(job):
    from pathlib import Path
    seed, i, n, opt, c, fmt, d = job
    spec = make_spec(seed, i, n, opt, c, fmt)
    return spec, run_case(spec, Path(d))


_POOL = []


def _map(fn, jobs, procs=8, chunksize=8):
    """ordered map over worker processes (results do not depend on the scheduling); HARNESS_PROCS=1 runs inline.
    The worker pool is started once and shared by the checks of this module."""
    import multiprocessing as mp
    import os
    procs = int(os.environ.get("HARNESS_PROCS", procs))
    if procs <= 1:
        return [fn(j) for j in jobs]
    if not _POOL:
        import atexit
        _POOL.append(mp.get_context("spawn").Pool(procs))
        atexit.register(_POOL[0].terminate)
    return _POOL[0].map(fn, jobs, chunksize=chunksize)


# ------------------------------------------------------------------------- missing cell x value kind families
# A "plan" gives every feature column a value kind and the zone of its missing cell(s); both vary independently.
KINDS = ["whole", "flag", "real", "whole-then-real", "real-then-whole", "truefalse"]
#   whole            whole numbers 0..30 in every row                       (text: "17";  Parquet: int64 / Int64)
#   flag             0/1 indicator                                           (text: "0"/"1"; Parquet: int64 / Int64)
#   real             numbers with a fractional part in every row             (Parquet: float64)
#   whole-then-real  whole numbers in the first two rows, fractional values among the later rows
#   real-then-whole  fractional values in the first two rows, whole numbers among the later rows
#   truefalse        true/false flag, NOT a number after parsing   (text: "True"/"False"; Parquet: bool, with a missing
#                    cell bool with nulls - pandas hands those out as python objects)
POSITIONS = ["first-rows", "later-row", "last-row", "next-row-chunk", "every-row"]
#   first-rows       missing cell(s) in row 0 and/or 1
#   later-row        1-2 missing cells after the first two rows and before the last row (inside the first row chunk
#                    whenever the row chunk is larger than 2)
#   last-row         only the last row
#   next-row-chunk   1-2 missing cells in rows of a LATER row chunk than the first (row index >= row chunk size)
#   every-row        every cell of the column is missing (text: an empty / all-NaN column; Parquet: an all-null column of
#                    the physical type of the kind, or a null-type column when written from python objects)
SMALL_ROW_CHUNKS = [2, 3, 7]


def _missing_rows(rnd, pos, n, r):
    if pos == "none":
        return []
    if pos == "first-rows":
        return sorted(rnd.sample([0, 1], rnd.choice([1, 1, 2])))
    if pos == "last-row":
        return [n - 1]
    if pos == "every-row":
        return list(range(n))
    if pos == "later-row":
        zone = list(range(2, min(r, n - 1))) if r > 2 else list(range(2, n - 1))
    elif pos == "next-row-chunk":
        zone = list(range(max(r, 2), n - 1))
    else:
        raise ValueError(pos)
    return sorted(rnd.sample(zone, min(len(zone), rnd.choice([1, 1, 2]))))


def _planned_column(spec, col, n):
    """cells of one planned feature column (pure function of the spec): a pandas Series"""
    import pandas as pd
    kind, pos, phys = spec["plan"][col]
    rnd = random.Random("c10m-col-%d-%d-%s" % (spec["seed"], spec["i"], col))

    def whole():
        return rnd.randint(0, 1) if kind == "flag" else rnd.randint(0, 30)

    def real():
        x = round(rnd.gauss(0, 3), 5)
        return x if x != int(x) else x + 0.5

    if kind in ("whole", "flag"):
        v = [whole() for _ in range(n)]
    elif kind == "truefalse":
        v = [rnd.random() < 0.5 for _ in range(n)]
    elif kind == "real":
        v = [real() for _ in range(n)]
    else:
        head, tail = (whole, real) if kind == "whole-then-real" else (real, whole)
        v = [head(), head()] + [tail() if rnd.random() < 0.5 else head() for _ in range(n - 2)]
        v[rnd.randrange(2, n)] = tail()
    gone = _missing_rows(rnd, pos, n, spec["chunk_rows"])
    if pos != "none" and not gone:
        raise AssertionError("no room for a %s missing cell in %d rows, row chunk %d" % (pos, n, spec["chunk_rows"]))
    for r in gone:
        v[r] = None
    if spec["fmt"] != "parquet":
        return pd.Series(v, dtype=object)          # cells are written as they are: 17 -> "17", 2.5 -> "2.5", None -> ""
    if phys == "int64":
        return pd.Series(v, dtype="int64")
    if phys == "Int64":
        return pd.Series(v, dtype="Int64")         # nullable integers: Parquet int64 with nulls
    if phys in ("bool", "boolean"):
        return pd.Series(v, dtype=phys)            # Parquet bool (nullable boolean: bool with nulls)
    if phys == "object":
        return pd.Series(v, dtype=object)          # True/False/None objects: Parquet bool with nulls, all None: null type
    return pd.Series([float("nan") if x is None else float(x) for x in v], dtype="float64")


def make_missing_spec(seed, i, family, fmt, chunk_cols, kind=None, pos=None):
    """family "single": one column (kind, pos) with missing cells among 2..6 complete columns of random kinds;
    family "cross": one column for every (kind, zone) pair, zone in POSITIONS + none (36 feature columns)."""
    rnd = random.Random("c10m-%d-%d" % (seed, i))
    if family == "single":
        others = [(rnd.choice(KINDS), "none") for _ in range(rnd.randint(2, 6))]
        plan = others + [(kind, pos)]
    else:
        plan = [(k, p) for k in KINDS for p in POSITIONS + ["none"]]
    rnd.shuffle(plan)
    # the parity of spec["i"] selects read_pin / read_percolator (see parse): drawn at random, not tied to the enumeration
    spec = make_spec(seed, 200000 + 2 * i + rnd.randint(0, 1), len(plan), rnd.randint(0, 3), chunk_cols, fmt)
    feats = [c for c in spec["cols"] if spec["roles"][c] == "feature"]
    spec["plan"] = {}
    for c, (k, p) in zip(feats, plan):
        if k in ("whole", "flag"):
            phys = "int64" if p == "none" else rnd.choice(["Int64", "float64"])
        elif k == "truefalse":
            phys = "bool" if p == "none" else rnd.choice(["boolean", "object"])
        else:
            phys = "float64"
        spec["plan"][c] = [k, p, phys]
    spec["nan_cols"] = [c for c in feats if spec["plan"][c][1] != "none"]
    spec["int_feats"] = []
    spec["rows"] = rnd.randint(9, 30)
    need_small = any(p == "next-row-chunk" for _, p in plan)
    spec["chunk_rows"] = rnd.choice(SMALL_ROW_CHUNKS if need_small else SMALL_ROW_CHUNKS + [2000000])
    spec["na_rep"] = rnd.choice(["", "", "NaN"])
    if fmt == "parquet":
        spec["row_group"] = rnd.choice([None, 4, 5])
    spec["mc"] = [i, family, kind, pos]
    return spec


def missing_cases(tier, seed):
    """(family, fmt, chunk_cols, kind, pos) of every case of the tier"""
    reps = 1 if tier == "quick" else 8
    out = []
    for _ in range(reps):
        for fmt in ("text", "parquet"):
            for kind in KINDS:
                for pos in POSITIONS:
                    for c in (3, 19):
                        out.append(("single", fmt, c, kind, pos))
            for c in (3, 4, 5, 19):
                for _ in range(2):
                    out.append(("cross", fmt, c, None, None))
    return out


def check_missing_cells(tier, seed):
    todo = missing_cases(tier, seed)
    ck = Check("read_percolator_missing_cells", "mokapot.parsers.pin.read_pin / read_percolator",
               ("exhaustive over value kind of the column %s x zone of its missing cell(s) %s x format {tab-delimited text, "
                "Parquet} x column chunk {3,19}: one such column among 2..6 complete columns of random kinds; plus tables "
                "with one feature column for every (kind, zone or no missing cell) pair (%d feature columns, column chunk "
                "3|4|5|19, text and Parquet); %d repetition(s); per case random (seed %d): 9..30 rows, row chunk 2|3|7 "
                "(or 2e6 when no next-row-chunk zone is planned), max_workers 1|2, column order/casing/optional columns "
                "as in read_percolator_tables, text: missing cell written as empty or NaN, numbers written as they are "
                "(17 / 2.5 / True); Parquet: whole/flag = int64, with missing cell nullable Int64 or float64, truefalse = "
                "bool, with missing cell bool with nulls (written from nullable booleans or from python objects: an "
                "all-missing object column is a null-type column), other kinds float64, row groups whole file|4|5; "
                "%d cases")
               % (KINDS, POSITIONS, len(KINDS) * (len(POSITIONS) + 1), 1 if tier == "quick" else 8, seed, len(todo)),
               "oracle from the case spec: same comparison as read_percolator_tables (rows, order, targets, spectrum key), "
               "features = the planned columns without a missing cell, in file order; every case is non-trivial (at "
               "least one column with a missing cell)")
    with scratch("c10m_") as d:
        jobs = [(seed, i, fam, fmt, c, kind, pos, str(d)) for i, (fam, fmt, c, kind, pos) in enumerate(todo)]
        for job, (spec, bad) in zip(jobs, _map(_missing_job, jobs, chunksize=4)):
            ck.case(job[:7], nontrivial=bool(spec["nan_cols"]))
            for case, what in bad:
                ck.violation(case, what, _payload(spec))
    return ck


def _missing_job(job):
    from pathlib import Path
    seed, i, fam, fmt, c, kind, pos, d = job
    spec = make_missing_spec(seed, i, fam, fmt, c, kind, pos)
    return spec, run_case(spec, Path(d))


def _reject_specs(tier, seed):
    n = 30 if tier == "quick" else 300
    for i in range(n):
        rnd = random.Random("c10t-rej-%d-%d" % (seed, i))
        spec = make_spec(seed, 100000 + i, rnd.randint(1, 25), rnd.randint(0, 3), rnd.choice([3, 4, 5, 19]),
                         rnd.choice(["text", "parquet"]))
        if i % 2 == 0:
            gone = rnd.choice(REQUIRED)
            col = _col(spec, gone)
            spec["cols"] = [c for c in spec["cols"] if c != col]
            spec["roles"] = {c: r for c, r in spec["roles"].items() if c != col}
            spec["why"] = "missing-" + gone
        else:
            spec["label_enc"] = rnd.choice(["pm1", "10"])
            spec["bad_label"] = [rnd.randint(0, 1000), rnd.choice([2, -2, 3, 7, -5])]
            spec["why"] = "label-out-of-range"
        yield spec
    # stray labels far outside the range: an out-of-range label is rejected however large it is
    far = far_labels()
    reps = 1 if tier == "quick" else 4
    for j in range(reps * len(far)):
        rnd = random.Random("c10t-far-%d-%d" % (seed, j))
        fmt = ("text", "parquet")[(j + j // len(far)) % 2] if tier == "quick" else rnd.choice(["text", "parquet"])
        spec = make_spec(seed, 150000 + j, rnd.randint(1, 25), rnd.randint(0, 3), rnd.choice([3, 4, 5, 19]), fmt)
        spec["label_enc"] = rnd.choice(["pm1", "10"])
        spec["bad_label"] = [rnd.randint(0, 1000), far[j % len(far)]]
        spec["why"] = "label-far-out-of-range"
        yield spec


def far_labels():
    """whole-number labels far outside {-1, 0, 1}: around the limits of the 8/16/32-bit integer types, and every
    k * 2**b + r with b in 8|16|32, k in 1|-1|2|3, r in -1|0|1 (the values a narrow integer type folds onto -1/0/1)"""
    out = [100, -100, 127, -127, 128, -128, 129, -129, 1000, -1000, 32767, -32768, 2 ** 31 - 1, -2 ** 31, 2 ** 62]
    for b in (8, 16, 32):
        for k in (1, -1, 2, 3):
            for r in (-1, 0, 1):
                out.append(k * 2 ** b + r)
    return sorted(set(out), key=lambda v: (abs(v), v))


def run_reject(spec, d):
    df, _ = build_table(spec)
    path = write_table(spec, df, d)
    try:
        parse(spec, path)
    except ValueError:
        return []
    except Exception as e:
        return [("%s-wrong-error:%s" % ("label-far" if spec["why"].startswith("label-far") else spec["why"].split("-")[0],
                                        type(e).__name__),
                 "%s: %s instead of ValueError: %s" % (spec["why"], type(e).__name__, str(e)[:120]))]
    finally:
        try:
            path.unlink()
        except OSError:
            pass
    return [("%s-accepted" % spec["why"], "%s: table was accepted" % spec["why"])]


def check_rejects(tier, seed):
    specs = list(_reject_specs(tier, seed))
    n_near = sum(1 for s in specs if s["why"] != "label-far-out-of-range")
    ck = Check("read_percolator_rejects", "mokapot.parsers.pin.read_pin / read_percolator",
               "random: %d generated tables (seed %d), half lacking one of the 5 required columns, half with one label in "
               "{2,-2,3,7,-5}; plus %d generated tables with one label far outside the range, every value of: +-100, "
               "+-127, +-128, +-129, +-1000, 32767, -32768, 2**31-1, -2**31, 2**62 and k*2**b+r for b in 8|16|32, k in "
               "1|-1|2|3, r in -1|0|1 (%d values, %s); random row of the stray label, base labels 1/-1 or 1/0, 1..25 "
               "features, column chunk 3|4|5|19; text and Parquet (int64 label column)"
               % (n_near, seed, len(specs) - n_near, len(far_labels()),
                  "each once" if tier == "quick" else "4 random tables each"),
               "expects ValueError; every case is non-trivial (the table is otherwise well-formed)")
    with scratch("c10r_") as d:
        jobs = [(spec, str(d)) for spec in specs]
        for spec, bad in zip(specs, _map(_reject_job, jobs, chunksize=2)):
            ck.case((seed, spec["i"], spec["why"]))
            for case, what in bad:
                ck.violation(case, what, _payload(spec))
    return ck


def _reject_job(job):
    from pathlib import Path
    spec, d = job
    return run_reject(spec, Path(d))


def replay(violation):
    inp = violation["input"]
    if isinstance(inp, str):
        inp = json.loads(inp)
    if "spec" in inp:
        spec = inp["spec"]
    else:
        r = inp["regen"]
        if "mc" in r:
            spec = make_missing_spec(r["seed"], r["mc"][0], r["mc"][1], r["fmt"], r["chunk_cols"], r["mc"][2], r["mc"][3])
        else:
            spec = make_spec(r["seed"], r["i"], r["n_feat"], r["n_spec_opt"], r["chunk_cols"], r["fmt"])
        if r.get("why", "").startswith("missing-"):
            col = _col(spec, r["why"][len("missing-"):])
            spec["cols"] = [c for c in spec["cols"] if c != col]
            spec["roles"] = {c: ro for c, ro in spec["roles"].items() if c != col}
        for key in ("why", "bad_label", "label_enc"):
            if key in r:
                spec[key] = r[key]
    with scratch("c10p_") as d:
        bad = run_reject(spec, d) if "why" in spec else run_case(spec, d)
    return {"violated": bool(bad), "detail": bad[:5]}


def REPLAY(check_name, violation):
    return replay(violation)


if __name__ == "__main__":
    a = args()
    emit([check_read_percolator(a.tier, a.seed), check_missing_cells(a.tier, a.seed), check_rejects(a.tier, a.seed)],
         ASSUMPTIONS)
