"""C10 bounded stand-in, table part: generated PIN tables (tab-delimited text and Parquet) through
mokapot.parsers.pin.read_pin / read_percolator.

A case is a small JSON-able spec (column names in file order, which of them are reserved / carry NaN, label
encoding, chunk constants, workers, format).  The table content is a pure function of the spec.  The oracle is
derived from the spec following the property statement and never looks at the parser.
"""
import json
import logging
import random
import warnings

from harness.common import Check, args, emit
from harness.datasets import scratch

logging.disable(logging.CRITICAL)
warnings.filterwarnings("ignore")

REQUIRED = ["specid", "label", "scannr", "peptide", "proteins"]
PIN_SPELLING = {"specid": "SpecId", "label": "Label", "scannr": "ScanNr", "peptide": "Peptide",
                "proteins": "Proteins", "expmass": "ExpMass", "calcmass": "CalcMass", "ret_time": "ret_time",
                "filename": "filename", "charge": "charge", "modifiedpeptide": "ModifiedPeptide",
                "precursor": "Precursor", "peptidegroup": "PeptideGroup"}
SPECTRUM_OPTIONAL = ["filename", "ret_time", "expmass"]            # the optional parts of the spectrum key
OTHER_OPTIONAL = ["calcmass", "charge", "modifiedpeptide", "precursor", "peptidegroup"]
# explicit (user-named) optional columns: read_pin(filename_column=..., ...) - exact spelling, no case folding
CUSTOM = {"filename": ("filename_column", "RawFile"), "ret_time": ("rt_column", "RT"),
          "expmass": ("expmass_column", "ObsMass"), "calcmass": ("calcmass_column", "TheoMass")}
FEATURE_NAMES = ["lnrSp", "deltLCn", "deltCn", "Xcorr", "Sp", "IonFrac", "Mass", "PepLen", "Charge2", "Charge3",
                 "enzN", "enzC", "enzInt", "lnNumSP", "dM", "absdM", "lnExpMass", "labels", "scan", "Peptides",
                 "RefactoredXCorr", "NegLog10PValue", "file_name", "rettime", "specIdx"]


def _casing(rnd, canon):
    style = rnd.choice(["pin", "lower", "upper", "mixed"])
    if style == "pin":
        return PIN_SPELLING[canon]
    if style == "lower":
        return canon.lower()
    if style == "upper":
        return canon.upper()
    return "".join(ch.upper() if rnd.random() < 0.5 else ch.lower() for ch in canon)


def make_spec(seed, i, n_feat, n_spec_opt, chunk_cols, fmt):
    """spec of case i: n_feat feature columns, n_spec_opt (0..3) optional spectrum-key columns."""
    rnd = random.Random("c10t-%d-%d" % (seed, i))
    roles = {}                      # column name -> role (canonical reserved name or "feature")
    kwargs = {}
    present = list(REQUIRED) + rnd.sample(SPECTRUM_OPTIONAL, n_spec_opt) \
        + [c for c in OTHER_OPTIONAL if rnd.random() < 0.3]
    custom = rnd.random() < 0.2
    reserved_cols = []
    for canon in present:
        if custom and canon in CUSTOM:
            kw, name = CUSTOM[canon]
            kwargs[kw] = name
        else:
            name = _casing(rnd, canon)
        roles[name] = canon
        reserved_cols.append(name)
    feats = []
    pool = list(FEATURE_NAMES)
    rnd.shuffle(pool)
    for j in range(n_feat):
        name = pool[j] if j < len(pool) and rnd.random() < 0.6 else "f%d" % j
        if name.lower() in {r.lower() for r in roles} or name in feats:
            name = "f%d" % j
        feats.append(name)
        roles[name] = "feature"
    if rnd.random() < 0.5:          # the usual PIN layout: ids, features, peptide, proteins
        tail = [c for c in reserved_cols if roles[c] in ("peptide", "proteins")]
        head = [c for c in reserved_cols if c not in tail]
        cols = head + feats + tail
    else:
        cols = reserved_cols + feats
        rnd.shuffle(cols)
    float_feats = [f for j, f in enumerate(feats) if j % 3 != 2]          # every third feature is an int column
    nan_cols = rnd.sample(float_feats, min(len(float_feats), rnd.choice([0, 0, 1, 2])))
    return {"seed": seed, "i": i, "fmt": fmt, "cols": cols, "roles": roles, "kwargs": kwargs,
            "nan_cols": sorted(nan_cols, key=cols.index), "int_feats": [f for f in feats if f not in float_feats],
            "label_enc": rnd.choice(["pm1", "10", "bool"]), "rows": rnd.randint(5, 30),
            "chunk_cols": chunk_cols, "chunk_rows": rnd.choice([2, 7, 2000000]), "workers": rnd.choice([1, 2]),
            "nan_last_row_only": rnd.random() < 0.3}


def build_table(spec):
    """the DataFrame of a spec (pure function of the spec)"""
    import numpy as np
    import pandas as pd
    rnd = random.Random("c10t-data-%d-%d" % (spec["seed"], spec["i"]))
    n = spec["rows"]
    is_target = [rnd.random() < 0.5 for _ in range(n)]
    if n >= 2:
        is_target[0], is_target[1] = True, False
    data = {}
    for col in spec["cols"]:
        role = spec["roles"][col]
        if role == "specid":
            v = ["psm_%d" % r for r in range(n)]
        elif role == "label":
            enc = spec.get("labels") or {"pm1": (1, -1), "10": (1, 0), "bool": (True, False)}[spec["label_enc"]]
            v = [enc[0] if t else enc[1] for t in is_target]
            if "bad_label" in spec:
                v[spec["bad_label"][0] % n] = spec["bad_label"][1]
        elif role == "scannr":
            v = [100 + r // 2 for r in range(n)]
        elif role == "peptide":
            v = ["K.PEP%dTIDE.R" % rnd.randint(0, 9) for _ in range(n)]
        elif role == "proteins":
            v = [("prot%d" if t else "decoy_prot%d") % rnd.randint(0, 4) for t in is_target]
        elif role == "filename":
            v = ["run%d.mzML" % (r % 2) for r in range(n)]
        elif role in ("ret_time", "expmass", "calcmass"):
            v = [round(rnd.uniform(300, 3000), 4) for _ in range(n)]
        elif role == "charge":
            v = [rnd.randint(2, 4) for _ in range(n)]
        elif role in ("modifiedpeptide", "precursor", "peptidegroup"):
            v = ["%s_%d" % (role[:3], rnd.randint(0, 6)) for _ in range(n)]
        elif col in spec["int_feats"]:
            v = [rnd.randint(0, 9) for _ in range(n)]
        else:
            v = [round(rnd.gauss(0, 3), 5) for _ in range(n)]
            if col in spec["nan_cols"]:
                where = [n - 1] if spec["nan_last_row_only"] else rnd.sample(range(n), rnd.randint(1, 3))
                for r in where:
                    v[r] = np.nan
        data[col] = v
    return pd.DataFrame(data, columns=spec["cols"]), is_target


def write_table(spec, df, d):
    path = d / ("t%d.%s" % (spec["i"], "parquet" if spec["fmt"] == "parquet" else "pin.tsv"))
    if spec["fmt"] == "parquet":
        df.to_parquet(path, index=False, row_group_size=spec.get("row_group", None))
    else:
        df.to_csv(path, sep="\t", index=False)
    return path


def parse(spec, path):
    import mokapot.parsers.pin as pin
    old = pin.CHUNK_SIZE_COLUMNS_FOR_DROP_COLUMNS, pin.CHUNK_SIZE_ROWS_FOR_DROP_COLUMNS
    pin.CHUNK_SIZE_COLUMNS_FOR_DROP_COLUMNS = spec["chunk_cols"]
    pin.CHUNK_SIZE_ROWS_FOR_DROP_COLUMNS = spec["chunk_rows"]
    try:
        if spec["i"] % 2:
            return pin.read_percolator(path, max_workers=spec["workers"], **spec["kwargs"])
        out = pin.read_pin(path, max_workers=spec["workers"], **spec["kwargs"])
        if not (isinstance(out, list) and len(out) == 1):
            raise AssertionError("read_pin returned %r for one file" % type(out))
        return out[0]
    finally:
        pin.CHUNK_SIZE_COLUMNS_FOR_DROP_COLUMNS, pin.CHUNK_SIZE_ROWS_FOR_DROP_COLUMNS = old


def _col(spec, role):
    for c in spec["cols"]:
        if spec["roles"][c] == role:
            return c
    return None


def run_case(spec, d):
    """-> list of (case, what) violations of the statement on this well-formed table"""
    import numpy as np
    df, is_target = build_table(spec)
    path = write_table(spec, df, d)
    k = 2 + sum(1 for r in SPECTRUM_OPTIONAL if _col(spec, r))
    n_feat = sum(1 for c in spec["cols"] if spec["roles"][c] == "feature")
    ctx = "%d features, %d identifier columns, column chunk %d (residue %d), %s" % (
        n_feat, k, spec["chunk_cols"], (n_feat + k) % spec["chunk_cols"], spec["fmt"])
    try:
        ds = parse(spec, path)
    except Exception as e:
        import re
        slug = "-".join(re.sub(r"'[^']*'|[^A-Za-z ]", " ", str(e)).lower().split()[:4])
        return [("parse-fails:%s:%s" % (type(e).__name__, slug),
                 "%s: %s [%s]" % (type(e).__name__, str(e)[:120], ctx))]
    finally:
        try:
            path.unlink()
        except OSError:
            pass
    bad = []
    # one entry per input row, in file order
    sp = ds.spectra_dataframe
    if len(sp) != len(df):
        bad.append(("row-count", "%d entries for %d input rows [%s]" % (len(sp), len(df), ctx)))
        return bad
    # spectrum key
    want_key = [_col(spec, "scannr")] + [_col(spec, r) for r in SPECTRUM_OPTIONAL if _col(spec, r)]
    got_key = list(ds.spectrum_columns)
    if sorted(got_key) != sorted(want_key):
        bad.append(("spectrum-key", "spectrum_columns %r, expected %r [%s]" % (got_key, want_key, ctx)))
    for c in want_key:
        if c not in sp.columns:
            bad.append(("spectrum-key", "spectra_dataframe lacks %r [%s]" % (c, ctx)))
            continue
        got = sp[c].tolist()
        if got != df[c].tolist():
            bad.append(("row-order", "column %r of spectra_dataframe differs from the file (first rows %r vs %r) [%s]"
                        % (c, got[:4], df[c].tolist()[:4], ctx)))
    # targets
    tc = ds.target_column
    if tc != _col(spec, "label") or tc not in sp.columns:
        bad.append(("target-column", "target_column %r, expected %r [%s]" % (tc, _col(spec, "label"), ctx)))
    else:
        got = sp[tc]
        if got.dtype != bool:
            bad.append(("targets", "target column has dtype %s [%s]" % (got.dtype, ctx)))
        elif got.tolist() != is_target:
            bad.append(("targets", "targets %r..., expected %r... (labels %s) [%s]"
                        % (got.tolist()[:6], is_target[:6], spec["label_enc"], ctx)))
    # features: the non-reserved columns without a missing value (a lone charge column is left out of the comparison:
    # the statement does not say on which side it belongs)
    amb = _col(spec, "charge")
    want = [c for c in spec["cols"] if spec["roles"][c] == "feature" and c not in spec["nan_cols"]]
    got = [c for c in ds.feature_columns if c != amb]
    if sorted(got) != sorted(want):
        extra = [c for c in got if c not in want]
        lost = [c for c in want if c not in got]
        if any(c in spec["nan_cols"] for c in extra):
            case = "nan-column-kept"
        elif any(spec["roles"].get(c) != "feature" for c in extra):
            case = "reserved-column-as-feature"
        elif lost:
            case = "feature-lost"
        else:
            case = "feature-set"
        bad.append((case, "feature_columns: unexpected %r, missing %r [%s]" % (extra, lost, ctx)))
    elif got != want:
        bad.append(("feature-order", "feature_columns %r are not in file order %r [%s]" % (got[:6], want[:6], ctx)))
    return bad


# ----------------------------------------------------------------------------------------------- enumeration
def cases(tier, seed):
    """(n_feat, n_spec_opt, chunk_cols, fmt) for every case of the tier"""
    out = []
    if tier == "quick":
        grid = [(c, n) for c in (3, 4, 5, 19) for n in range(1, 26)]
    else:
        grid = [(19, n) for n in range(1, 61)] + [(c, n) for c in (3, 4, 5, 7, 19) for n in range(1, 26)]
        grid = grid * 3
    j = 0
    for c, n in grid:
        for opt in range(4):
            fmts = ("text", "parquet") if tier != "quick" else (("text", "parquet")[(j + opt) % 2],)
            for fmt in fmts:
                out.append((n, opt, c, fmt))
        j += 1
    return out


def _payload(spec):
    p = {"spec": spec}
    if len(json.dumps(p)) > 1900:
        slim = {k: v for k, v in spec.items() if k not in ("roles", "cols")}
        slim["n_feat"] = sum(1 for c in spec["cols"] if spec["roles"][c] == "feature")
        slim["n_spec_opt"] = sum(1 for r in SPECTRUM_OPTIONAL if _col(spec, r))
        p = {"regen": slim}
    return p


def _nontrivial(spec):
    n_feat = sum(1 for c in spec["cols"] if spec["roles"][c] == "feature")
    k = 2 + sum(1 for r in SPECTRUM_OPTIONAL if _col(spec, r))
    return n_feat + k > spec["chunk_cols"] or bool(spec["nan_cols"])


def check_read_percolator(tier, seed):
    todo = cases(tier, seed)
    ck = Check("read_percolator_tables", "mokapot.parsers.pin.read_pin / read_percolator",
               ("exhaustive over (column chunk size c, feature count n, identifier count k): c in %s x n in 1..25%s x "
                "k in 2..5 (every residue of n+k modulo c), %s; per case random (seed %d): column order (PIN layout or "
                "shuffled), casing of the reserved names, optional calcmass/charge/rollup-level columns, user-named "
                "optional columns, labels 1/-1 | 1/0 | bool, NaN in 0..2 feature columns, 5..30 rows, row chunk 2|7|2e6, "
                "max_workers 1|2; %d cases")
               % ("{3,4,5,19}" if tier == "quick" else "{3,4,5,7,19}", "" if tier == "quick" else " (1..60 for c=19)",
                  "text or Parquet alternating" if tier == "quick" else "text and Parquet, 3 random repetitions",
                  seed, len(todo)),
               "oracle from the case spec: one entry per row in file order, targets = rows labelled 1/True, spectrum key "
               "= scan + available filename/ret_time/expmass, features = non-reserved columns without NaN (file order); "
               "non-trivial = more than one column chunk or a NaN column")
    with scratch("c10t_") as d:
        jobs = [(seed, i, n, opt, c, fmt, str(d)) for i, (n, opt, c, fmt) in enumerate(todo)]
        for (seed_, i, n, opt, c, fmt, _), (spec, bad) in zip(jobs, _map(_job, jobs)):
            ck.case((seed, i, n, opt, c, fmt), nontrivial=_nontrivial(spec))
            for case, what in bad:
                ck.violation(case, what, _payload(spec))
    return ck


def _job(job):
    from pathlib import Path
    seed, i, n, opt, c, fmt, d = job
    spec = make_spec(seed, i, n, opt, c, fmt)
    return spec, run_case(spec, Path(d))


def _map(fn, jobs, procs=8):
    """ordered map over worker processes (results do not depend on the scheduling); HARNESS_PROCS=1 runs inline"""
    import multiprocessing as mp
    import os
    procs = int(os.environ.get("HARNESS_PROCS", procs))
    if procs <= 1:
        return [fn(j) for j in jobs]
    with mp.get_context("spawn").Pool(procs) as pool:
        return pool.map(fn, jobs, chunksize=8)


def _reject_specs(tier, seed):
    n = 30 if tier == "quick" else 300
    for i in range(n):
        rnd = random.Random("c10t-rej-%d-%d" % (seed, i))
        spec = make_spec(seed, 100000 + i, rnd.randint(1, 25), rnd.randint(0, 3), rnd.choice([3, 4, 5, 19]),
                         rnd.choice(["text", "parquet"]))
        if i % 2 == 0:
            gone = rnd.choice(REQUIRED)
            col = _col(spec, gone)
            spec["cols"] = [c for c in spec["cols"] if c != col]
            spec["roles"] = {c: r for c, r in spec["roles"].items() if c != col}
            spec["why"] = "missing-" + gone
        else:
            spec["label_enc"] = rnd.choice(["pm1", "10"])
            spec["bad_label"] = [rnd.randint(0, 1000), rnd.choice([2, -2, 3, 7, -5])]
            spec["why"] = "label-out-of-range"
        yield spec


def run_reject(spec, d):
    df, _ = build_table(spec)
    path = write_table(spec, df, d)
    try:
        parse(spec, path)
    except ValueError:
        return []
    except Exception as e:
        return [("%s-wrong-error:%s" % (spec["why"].split("-")[0], type(e).__name__),
                 "%s: %s instead of ValueError: %s" % (spec["why"], type(e).__name__, str(e)[:120]))]
    finally:
        try:
            path.unlink()
        except OSError:
            pass
    return [("%s-accepted" % spec["why"], "%s: table was accepted" % spec["why"])]


def check_rejects(tier, seed):
    specs = list(_reject_specs(tier, seed))
    ck = Check("read_percolator_rejects", "mokapot.parsers.pin.read_pin / read_percolator",
               "random: %d generated tables (seed %d), half lacking one of the 5 required columns, half with one label in "
               "{2,-2,3,7,-5}; text and Parquet" % (len(specs), seed),
               "expects ValueError; every case is non-trivial (the table is otherwise well-formed)")
    with scratch("c10r_") as d:
        for spec in specs:
            ck.case((seed, spec["i"], spec["why"]))
            for case, what in run_reject(spec, d):
                ck.violation(case, what, _payload(spec))
    return ck


def replay(violation):
    inp = violation["input"]
    if isinstance(inp, str):
        inp = json.loads(inp)
    if "spec" in inp:
        spec = inp["spec"]
    else:
        r = inp["regen"]
        spec = make_spec(r["seed"], r["i"], r["n_feat"], r["n_spec_opt"], r["chunk_cols"], r["fmt"])
        if r.get("why", "").startswith("missing-"):
            col = _col(spec, r["why"][len("missing-"):])
            spec["cols"] = [c for c in spec["cols"] if c != col]
            spec["roles"] = {c: ro for c, ro in spec["roles"].items() if c != col}
        for key in ("why", "bad_label", "label_enc"):
            if key in r:
                spec[key] = r[key]
    with scratch("c10p_") as d:
        bad = run_reject(spec, d) if "why" in spec else run_case(spec, d)
    return {"violated": bool(bad), "detail": bad[:5]}


def REPLAY(check_name, violation):
    return replay(violation)


if __name__ == "__main__":
    a = args()
    emit([check_read_percolator(a.tier, a.seed), check_rejects(a.tier, a.seed)],
         ["one protein per row (no tab-separated protein lists), no DefaultDirection line",
          "a lone 'charge' column is left out of the feature comparison (read_percolator looks for the optional charge "
          "column under the name 'charge_column', so dataset.charge_column stays None; the statement is silent on it)",
          "feature order = file order is required as a separate case id ('feature-order'); spectrum-key order is free"])
