"""C03 bounded stand-in: competition (best PSM per spectrum) and rollup (best retained PSM per entity).

Runs the real `mokapot.confidence.assign_confidence` (and, in check `rollup_tool`, `mokapot.brew_rollup.main`)
on small generated tables and compares every result file with an oracle that is computed from the input table
and the property statement only (pandas/numpy free of mokapot code)."""
import json
import logging
import os
import warnings
from pathlib import Path

for _v in ("OMP_NUM_THREADS", "OPENBLAS_NUM_THREADS", "MKL_NUM_THREADS", "NUMBA_NUM_THREADS"):
    os.environ.setdefault(_v, "1")      # the cases run in a process pool; no nested thread pools

import numpy as np
import pandas as pd

from harness.common import Check, args, emit
from harness.datasets import scratch, make_ds

logging.disable(logging.CRITICAL)
warnings.filterwarnings("ignore")

TOL_Q = 1e-6
TOL_S = 1e-9
SPECTRUM = ("ScanNr", "ExpMass")
EXTRA_LEVELS = ("Precursor", "ModifiedPeptide", "PeptideGroup")


# ----------------------------------------------------------------------------------------------- generator
def gen_spectra(rng, n):
    """n >= 3 distinct spectrum keys (ScanNr, ExpMass) that are easy to confuse (class `confusable`), in shuffled
    order. Groups of 2-3 keys (the first group of kind concat, the others of a drawn kind) while 3 more keys fit, then
    plain keys up to n:
    concat    - the digits of one string of 3-5 digits 1..9 are split at 2-3 different places into ScanNr and the
                integer part of ExpMass (same fraction), e.g. (1, 11.5) and (11, 1.5), or (2, 132.25), (21, 32.25) and
                (213, 2.25): the keys differ in both columns but read the same when the values are written one after
                the other;
    same-scan - one ScanNr with 2-3 different ExpMass values (the key differs in its second column only);
    same-mass - one ExpMass with 2-3 different ScanNr values (the key differs in its first column only)."""
    keys = []
    kinds = ["concat", "same-scan", "same-mass"]
    g = 0
    while g == 0 or len(keys) + 3 <= n:
        kind = "concat" if g == 0 else str(rng.choice(kinds))
        g += 1
        size = int(rng.choice([2, 2, 3]))
        if kind == "concat":
            digits = "".join(str(int(x)) for x in rng.integers(1, 10, int(rng.integers(3, 6))))
            frac = float(rng.choice([0.5, 0.25, 0.125, 0.75]))
            cuts = rng.choice(np.arange(1, len(digits)), min(size, len(digits) - 1), replace=False)
            new = [(int(digits[:c]), int(digits[c:]) + frac) for c in cuts]
        elif kind == "same-scan":
            scan = int(rng.integers(1, 1000))
            new = [(scan, float(m) + 0.5) for m in rng.choice(np.arange(100, 2000), size, replace=False)]
        else:
            mass = float(rng.integers(100, 2000)) + 0.25
            new = [(int(x), mass) for x in rng.choice(np.arange(1, 1000), size, replace=False)]
        keys += [k for k in new if k not in keys]
    while len(keys) < n:
        k = (int(rng.integers(1000, 5000)), float(rng.integers(100, 2000)) + 0.0625)
        if k not in keys:
            keys.append(k)
    return [keys[i] for i in rng.permutation(len(keys))]


def confusable_pairs(keys):
    """number of pairs of DISTINCT spectrum keys that agree in one column or in the concatenated text"""
    keys = sorted(set(keys))
    cnt = {"concat": 0, "one-column": 0}
    for i, a in enumerate(keys):
        for b in keys[i + 1:]:
            if a[0] == b[0] or a[1] == b[1]:
                cnt["one-column"] += 1
            elif "%s%s" % a == "%s%s" % b:
                cnt["concat"] += 1
    return cnt


def gen_table(rng, n_rows, extra, id0=0, scan0=0, p_target=None, label_by_peptide=None, overlap=None,
              spectra=False):
    """A PIN-like table with n_rows PSMs: spectra of multiplicity 1..3, peptides shared between spectra, a
    target/decoy mix and optional extra level columns. SpecId values are unique (also across collections).
    overlap (class `alike`, see OVERLAP_MODES): entity names of DIFFERENT level columns may be spelled identically.
    spectra (class `confusable`): the spectrum keys come from gen_spectra instead of (k, 500 + k/2)."""
    # every table has at least ceil(n_rows / 3) spectra: those get the confusable keys, later ones plain keys
    keys = gen_spectra(rng, max(3, -(-n_rows // 3))) if spectra else None
    if p_target is None:
        p_target = rng.choice([0.35, 0.5, 0.65])
    if label_by_peptide is None:
        label_by_peptide = rng.random() < 0.5
    n_pep = max(2, int(n_rows * rng.choice([0.3, 0.5, 0.8])))
    pep_label = {p: (1 if rng.random() < p_target else -1) for p in range(n_pep)}
    rows = []
    scan = scan0
    while len(rows) < n_rows:
        mult = min(int(rng.choice([1, 1, 2, 2, 3])), n_rows - len(rows))
        for _ in range(mult):
            p = int(rng.integers(n_pep))
            lab = pep_label[p] if label_by_peptide else (1 if rng.random() < p_target else -1)
            row = dict(SpecId=id0 + len(rows), Label=lab, ScanNr=scan, ExpMass=500.0 + 0.5 * scan, f0=0.0,
                       Peptide="PEP%dK" % p, Proteins="prot%d" % (p % 4))
            if keys is not None:
                k = scan - scan0
                row["ScanNr"], row["ExpMass"] = keys[k] if k < len(keys) else (5000 + k, 100.0625 + k)
            for k, col in enumerate(extra):
                # entities coarser or finer than the peptide, shared between spectra
                m = max(5, n_pep // 2) if col == "PeptideGroup" else n_pep + 3
                row[col] = "%s_%d" % (col[:2].lower(), (p * (k + 2) + int(rng.integers(3))) % m)
                if overlap in ("shared-pool", "both"):
                    # one name pool for all extra level columns: the same string names entities of two levels,
                    # in the same row or in different rows
                    row[col] = "ent_%d" % ((p * (k + 2) + int(rng.integers(3))) % m)
                if overlap in ("as-peptide", "both") and rng.random() < (0.5 if overlap == "as-peptide" else 0.3):
                    # e.g. an unmodified peptide: ModifiedPeptide is spelled exactly like Peptide
                    row[col] = row["Peptide"]
            rows.append(row)
        scan += 1
    df = pd.DataFrame(rows)
    # shuffle the rows so that PSMs of one spectrum are not adjacent in the file
    if rng.random() < 0.7:
        df = df.iloc[rng.permutation(len(df))].reset_index(drop=True)
    return df


def gen_scores(rng, n, zero=False):
    """tie-free scores; the scale varies so that string round trips of floats are exercised.
    zero (class `zero`): the vector is shifted so that exactly one score, of uniformly drawn rank but neither the
    best nor the worst, is exactly 0.0 (a calibrated score or a raw feature used as score); the scores below it are
    negative."""
    kind = rng.choice(["perm", "normal", "small"])
    if kind == "perm":
        s = rng.permutation(n).astype(float) - n // 3 + round(float(rng.random()), 4)
    elif kind == "normal":
        s = rng.normal(0, 3, n)
    else:
        s = rng.normal(0, 1e-3, n)
    if zero:
        while True:
            i = np.argsort(s)[int(rng.integers(1, n - 1))]
            t = s - s[i]
            if len(np.unique(t)) == n and int(np.sum(t == 0.0)) == 1:
                s = t
                break
    assert len(np.unique(s)) == n
    return s


def gen_config(rng, tier):
    n_coll = int(rng.choice([1, 1, 2, 3]))
    extra = []
    r = rng.random()
    if r < 0.35:
        extra = [str(rng.choice(EXTRA_LEVELS))]
    elif r < 0.5:
        extra = [str(c) for c in rng.choice(EXTRA_LEVELS, 2, replace=False)]
    levels = list(extra) + ["Peptide"]
    if rng.random() < 0.3:
        levels = [levels[i] for i in rng.permutation(len(levels))]
    cfg = dict(
        n_rows=[int(rng.integers(8, 31)) for _ in range(n_coll)],
        extra=extra, level_columns=levels,
        dedup=bool(rng.random() < 0.6), rollup=bool(rng.random() < 0.7), decoys=bool(rng.random() < 0.7),
        prefixes=bool(rng.random() < 0.5) if n_coll > 1 else bool(rng.random() < 0.3),
        fmt=str(rng.choice([".pin", ".pin", ".parquet"])),
        eval_fdr=float(rng.choice([0.01, 0.1, 0.5])),
        # rows per streaming chunk (0 = default of 1e6, i.e. one chunk): with several chunks the PSMs of one spectrum
        # reach the competition loop of assign_confidence instead of being pre-filtered per chunk
        chunk=int(rng.choice([0, 0, 1, 2, 3, 5, 8])),
        seed=int(rng.integers(1 << 30)))
    return cfg


OVERLAP_MODES = ("as-peptide", "shared-pool", "both")
CLASS_TAG = {"alike": "entity-spelled-alike-across-levels", "zero": "zero-score-multichunk",
             "confusable": "confusable-spectrum-keys"}


def gen_config_class(rng, tier, cls):
    """configurations of three input classes that gen_config does not reach (key `cls`; build_case reads the keys
    `overlap`, `zero` and `spectra`):
    confusable - de-duplication on and spectrum keys from gen_spectra: distinct (ScanNr, ExpMass) pairs that agree in
            one of the two columns, or that read the same when the two values are written one after the other; each
            of them is a spectrum of its own;
    alike - rollup with 1-2 extra level columns in which entity names are spelled like names of ANOTHER level:
            an extra column equal to the Peptide string in about half of the rows (as-peptide: the unmodified
            peptides of a ModifiedPeptide column), two extra columns drawing from one name pool (shared-pool), or
            both; the levels must still be de-duplicated independently of each other;
    zero  - several sorted chunk files (CONFIDENCE_CHUNK_SIZE in {1,2,3,5,8} < number of PSMs) and, in one
            collection, a score vector with exactly one 0.0 of uniformly drawn rank and negative scores below it."""
    cfg = gen_config(rng, tier)
    cfg["cls"] = cls
    if cls == "alike":
        mode = str(rng.choice(OVERLAP_MODES))
        n_extra = int(rng.choice([1, 2])) if mode == "as-peptide" else 2
        extra = [str(c) for c in rng.choice(EXTRA_LEVELS, n_extra, replace=False)]
        levels = extra + ["Peptide"]
        if rng.random() < 0.5:
            levels = [levels[i] for i in rng.permutation(len(levels))]
        cfg.update(extra=extra, level_columns=levels, rollup=True, overlap=mode)
    elif cls == "zero":
        cfg.update(chunk=int(rng.choice([1, 2, 3, 5, 8])), zero=int(rng.integers(len(cfg["n_rows"]))))
        cfg["n_rows"] = [max(10, x) for x in cfg["n_rows"]]
    elif cls == "confusable":
        cfg.update(dedup=True, spectra=True)
    else:
        raise ValueError(cls)
    return cfg


def build_case(cfg):
    """deterministic from cfg: list of (table, scores)"""
    rng = np.random.default_rng(cfg["seed"])
    out = []
    id0 = scan0 = 0
    for k, n in enumerate(cfg["n_rows"]):
        # PEP estimation (qvality) needs targets and decoys among the retained rows of every level: regenerate
        # until it can run (see _usable); after every 40 failed attempts the table gets one more row
        for attempt in range(2000):
            if cfg.get("cls"):
                df = gen_table(rng, n + attempt // 40, cfg["extra"], id0=id0, scan0=scan0,
                               overlap=cfg.get("overlap"), spectra=bool(cfg.get("spectra")))
                sc = gen_scores(rng, len(df), zero=cfg.get("zero") == k)
            else:
                df = gen_table(rng, n + attempt // 40, cfg["extra"], id0=id0, scan0=scan0)
                sc = gen_scores(rng, len(df))
            if _usable(df, sc, cfg):
                break
        else:
            raise RuntimeError("generator could not build a usable table")
        while any(len(np.intersect1d(sc, s2)) for _, s2 in out):
            if cfg.get("zero") == k:              # keep the exact 0.0 of this collection: move the earlier ones
                out = [(d2, s2 + 0.5 ** 9) for d2, s2 in out]
            else:
                sc = sc + 0.5 ** 9                # scores are tie-free across collections too
        out.append((df, sc))
        id0 += 1000
        scan0 += 0 if rng.random() < 0.5 else 100   # collections may or may not share spectrum keys
    return out


def _usable(df, sc, cfg):
    """Input-domain restriction (PEPs are not the subject here): the PEP estimator called by assign_confidence must
    be able to run on the rows the property says are retained at every level (it needs a few targets and decoys)."""
    from mokapot.peps import peps_from_scores
    levels = retained_levels(df, sc, dict(cfg, rollup=True))
    for e in levels.values():
        if e["target"].sum() < 2 or (~e["target"]).sum() < 2:
            return False
    for e in levels.values():
        try:
            peps_from_scores(e["score"].values, e["target"].values, "qvality")
        except BaseException:
            return False
    return True


# ----------------------------------------------------------------------------------------------- oracle
def c01_qvalues(scores, targets):
    """q_i = min over thresholds t <= s_i of min(1, (#decoys with score >= t) + 1) / #targets with score >= t),
    1 where no target qualifies (property C01, higher = better). Quadratic on purpose."""
    scores = np.asarray(scores, float)
    targets = np.asarray(targets, bool)
    q = np.ones(len(scores))
    for i in range(len(scores)):
        best = 1.0
        for t in scores[scores <= scores[i]]:
            nt = int(np.sum(targets & (scores >= t)))
            nd = int(np.sum(~targets & (scores >= t)))
            if nt > 0:
                best = min(best, (nd + 1) / nt)
        q[i] = best
    return q


def retained_levels(df, sc, cfg):
    """level name -> the input rows (plus score, target) that the property says are retained at that level"""
    t = df.copy()
    t["score"] = sc
    t["target"] = t["Label"] == 1
    if cfg["dedup"]:
        keep = []
        for _, g in t.groupby(list(SPECTRUM), sort=False):
            keep.append(g["score"].idxmax())
        psms = t.loc[keep]
    else:
        psms = t
    out = {"psms": psms}
    if cfg["rollup"]:
        for col in cfg["level_columns"]:
            keep = []
            for _, g in psms.groupby(col, sort=False):
                keep.append(g["score"].idxmax())
            out[col.lower() + "s"] = psms.loc[keep]
    return out


def expected_levels(df, sc, cfg):
    """retained rows per level, best first, with the expected q-value in column q"""
    out = retained_levels(df, sc, cfg)
    for lev in out:
        e = out[lev].sort_values("score", ascending=False).reset_index(drop=True)
        e["q"] = c01_qvalues(e["score"].values, e["target"].values)
        out[lev] = e
    return out


def compare_level(got, exp, extra_cols, what):
    """got: rows read from a result file (already restricted to one collection); exp: expected rows (one label).
    Returns a list of (case_id, message)."""
    bad = []
    need = ["PSMId", "peptide", "score", "q-value", "posterior_error_prob", "proteinIds"] + list(extra_cols)
    miss = [c for c in need if c not in got.columns]
    if miss:
        return [("columns-missing", "%s: columns %s missing" % (what, miss))]
    gid = list(got["PSMId"])
    eid = list(exp["SpecId"])
    if len(gid) != len(set(gid)):
        bad.append(("row-duplicated", "%s: a PSMId occurs twice" % what))
    if set(gid) != set(eid):
        extra = sorted(set(gid) - set(eid))
        lost = sorted(set(eid) - set(gid))
        kind = "retained-set-wrong"
        bad.append((kind, "%s: retained PSMIds differ: unexpected %s, missing %s" % (what, extra[:6], lost[:6])))
        return bad
    if gid != eid:
        if np.any(np.diff(got["score"].values.astype(float)) > 0):
            bad.append(("not-sorted", "%s: scores not in non-increasing order" % what))
        # same rows and non-increasing: the order can only differ among equal scores, which is allowed
        got = got.set_index("PSMId").loc[eid].reset_index()
    e = exp
    for gc, ec in [("peptide", "Peptide"), ("proteinIds", "Proteins")] + [(c, c) for c in extra_cols]:
        if list(got[gc].astype(str)) != list(e[ec].astype(str)):
            bad.append(("row-mixes-psms", "%s: column %s is not that of the PSM named by PSMId" % (what, gc)))
    if not np.allclose(got["score"].values.astype(float), e["score"].values, rtol=0, atol=TOL_S):
        bad.append(("row-mixes-psms", "%s: score is not that of the PSM named by PSMId" % what))
    dq = np.abs(got["q-value"].values.astype(float) - e["q"].values)
    if np.any(~(dq <= TOL_Q)):
        i = int(np.nanargmax(dq)) if not np.all(np.isnan(dq)) else 0
        bad.append(("qvalue-not-on-retained-rows", "%s: q-value %r != C01 formula on the retained rows %r (row %d)"
                    % (what, float(got["q-value"].values[i]), float(e["q"].values[i]), i)))
    return bad


def expected_listing(cfg, prefixes):
    levels = ["psms"] + ([c.lower() + "s" for c in cfg["level_columns"]] if cfg["rollup"] else [])
    names = set()
    for p in prefixes:
        pre = (p + ".") if p else ""
        for lev in levels:
            names.add("%stargets.%s" % (pre, lev))
            if cfg["decoys"]:
                names.add("%sdecoys.%s" % (pre, lev))
    return names, levels


# ----------------------------------------------------------------------------------------------- driver
def run_assign(cfg, tables, d, assign=None, peps="qvality"):
    """runs the real assign_confidence in d/out; returns (out_dir, prefixes)"""
    if assign is None:
        from mokapot.confidence import assign_confidence as assign
    dss = []
    for k, (df, sc) in enumerate(tables):
        dss.append(make_ds(df, Path(d) / ("in%d%s" % (k, cfg["fmt"])), level_columns=tuple(cfg["level_columns"]),
                           extra_metadata=tuple(cfg["extra"])))
    out = Path(d) / "out"
    out.mkdir()
    prefixes = [("c%d" % k if cfg["prefixes"] else None) for k in range(len(tables))]
    import mokapot.confidence as conf
    saved = conf.CONFIDENCE_CHUNK_SIZE
    if cfg.get("chunk"):
        conf.CONFIDENCE_CHUNK_SIZE = cfg["chunk"]
    try:
        assign(psms=dss, max_workers=1, scores=[np.array(sc, dtype=float) for _, sc in tables],
               descs=[True] * len(tables), eval_fdr=cfg["eval_fdr"], dest_dir=out, prefixes=prefixes,
               decoys=cfg["decoys"], deduplication=cfg["dedup"], do_rollup=cfg["rollup"], rng=cfg["seed"] % 1000,
               peps_algorithm=peps)
    finally:
        conf.CONFIDENCE_CHUNK_SIZE = saved
    return out, prefixes


def evaluate(cfg, tables, out, prefixes):
    """compare the files in `out` with the oracle; list of (case_id, message)"""
    bad = []
    names, levels = expected_listing(cfg, prefixes)
    have = set(os.listdir(out))
    if names - have:
        bad.append(("result-file-missing", "missing result files %s" % sorted(names - have)))
        return bad
    if have - names:
        bad.append(("unexpected-file", "unexpected files %s" % sorted(have - names)))
    extra_cols = cfg["extra"] if cfg["rollup"] else []
    exp = [expected_levels(df, sc, cfg) for df, sc in tables]
    for lev in levels:
        for kind in (["targets", "decoys"] if cfg["decoys"] else ["targets"]):
            files = {}
            for k, p in enumerate(prefixes):
                files.setdefault("%s%s.%s" % ((p + ".") if p else "", kind, lev), []).append(k)
            for fn, colls in files.items():
                got = pd.read_csv(out / fn, sep="\t")
                all_ids = set()
                for k in colls:
                    ids = set(tables[k][0]["SpecId"])
                    all_ids |= ids
                    e = exp[k][lev]
                    e = e[e["target"] == (kind == "targets")].reset_index(drop=True)
                    g = got[got["PSMId"].isin(ids)].reset_index(drop=True)
                    bad += compare_level(g, e, extra_cols, "%s[collection %d]" % (fn, k))
                alien = set(got["PSMId"]) - all_ids
                if alien:
                    bad.append(("alien-rows", "%s holds PSMIds of no input of this file: %s" % (fn, sorted(alien)[:5])))
    return bad


def nontrivial(cfg, tables):
    """in some collection competition removes a PSM and rollup removes a further, retained one (whether or not
    the switches of this configuration are on: with a switch off the same rows must all be kept)"""
    if cfg.get("cls") == "alike":
        return _alike_nontrivial(cfg, tables)
    if cfg.get("cls") == "zero":
        return _zero_nontrivial(cfg, tables)
    if cfg.get("cls") == "confusable":
        return _confusable_nontrivial(cfg, tables)
    for df, sc in tables:
        lev = retained_levels(df, sc, dict(cfg, dedup=True, rollup=True, level_columns=["Peptide"]))
        if len(lev["peptides"]) < len(lev["psms"]) < len(df):
            return True
    return False


def _alike_nontrivial(cfg, tables):
    """among the retained PSMs of some collection one string names entities of two different level columns"""
    for df, sc in tables:
        psms = retained_levels(df, sc, dict(cfg, rollup=False))["psms"]
        cols = cfg["level_columns"]
        for i, a in enumerate(cols):
            for b in cols[i + 1:]:
                if set(psms[a].astype(str)) & set(psms[b].astype(str)):
                    return True
    return False


def _confusable_nontrivial(cfg, tables):
    """some collection holds two distinct spectrum keys with the same concatenated text AND two that agree in
    exactly one column"""
    for df, sc in tables:
        cnt = confusable_pairs(list(zip(df["ScanNr"].tolist(), df["ExpMass"].tolist())))
        if cnt["concat"] and cnt["one-column"]:
            return True
    return False


def _zero_nontrivial(cfg, tables):
    """the 0.0 PSM lies (in file order) in a chunk before a chunk that holds a negative score"""
    df, sc = tables[cfg["zero"]]
    c = cfg["chunk"]
    pos = np.flatnonzero(np.asarray(sc) == 0.0)
    if c <= 0 or len(pos) != 1:
        return False
    neg = np.flatnonzero(np.asarray(sc) < 0)
    return bool(len(neg) and neg.max() // c > pos[0] // c)


ASSIGN = None      # validation scripts put a deliberately broken assign_confidence here (inherited by fork)
WORKERS = 8


def run_case(cfg):
    tables = build_case(cfg)
    with scratch("c03_") as d:
        try:
            out, prefixes = run_assign(cfg, tables, d, assign=ASSIGN)
        except BaseException as e:     # SystemExit from triqler included
            return tables, [("run-failed-%s" % type(e).__name__, "assign_confidence raised %s: %s"
                             % (type(e).__name__, str(e)[:200]))]
        return tables, evaluate(cfg, tables, out, prefixes)


def _assign_worker(cfg):
    tables, bad = run_case(cfg)
    return nontrivial(cfg, tables), bad


_WARM = []


def _warm_up():
    """numba compiles mokapot.qvalues._fdr2qvalue at its first call (~3 s): do it once, before forking"""
    if not _WARM:
        from mokapot.qvalues import tdc
        tdc(np.array([3.0, 2.0, 1.0]), np.array([True, False, True]))
        _WARM.append(1)


def _pool_map(fn, cfgs):
    import multiprocessing as mp
    _warm_up()
    if WORKERS <= 1:
        return [fn(c) for c in cfgs]
    with mp.get_context("fork").Pool(WORKERS) as pool:
        # results come back in input order whatever the chunk size; short lists are handed out case by case so
        # that all workers stay busy
        return pool.map(fn, cfgs, chunksize=max(1, min(4, len(cfgs) // (4 * WORKERS))))


def check_assign(tier, seed, n_cases=None):
    n = n_cases or (150 if tier == "quick" else 3000)
    ck = Check("assign_confidence_levels", "mokapot.confidence.assign_confidence",
               "random: %d configurations (seed %d), 1-3 collections of 8-30 PSMs each (a collection grows by one "
               "row per 40 rejected draws), spectrum multiplicity 1-3, 0-2 extra level columns, "
               "de-dup/rollup/decoys/prefixes on and off, CSV and Parquet input, CONFIDENCE_CHUNK_SIZE in "
               "{default,1,2,3,5,8}, tie-free scores, max_workers=1, "
               "qvality PEPs (values not checked)" % (n, seed),
               "tables from gen_table/gen_scores; oracle = best PSM per spectrum key, then best retained PSM per "
               "entity, C01 formula on the retained rows; non-trivial = in some collection a spectrum has several "
               "PSMs and, among the best PSMs per spectrum, a peptide occurs more than once")
    rng = np.random.default_rng(seed)
    cfgs = [gen_config(rng, tier) for _ in range(n)]
    for cfg, (nt, bad) in zip(cfgs, _pool_map(_assign_worker, cfgs)):
        ck.case(cfg, nontrivial=nt)
        for case_id, msg in bad:
            ck.violation(case_id, msg, cfg)
    return ck


def check_assign_class(tier, seed, cls, n_cases=None):
    """the same driver and oracle as check_assign on the input classes of gen_config_class"""
    n = n_cases or ({"alike": 18, "zero": 24, "confusable": 10}[cls] if tier == "quick"
                    else {"confusable": 300}.get(cls, 500))
    common = ("otherwise as assign_confidence_levels (1-3 collections of 8-30 PSMs, spectrum multiplicity 1-3, "
              "de-dup/decoys/prefixes on and off, CSV and Parquet input, max_workers=1, qvality PEPs not checked)")
    if cls == "alike":
        ck = Check("assign_confidence_alike_level_names", "mokapot.confidence.assign_confidence",
                   "random: %d configurations (seed %d) with rollup on and 1-2 extra level columns whose entity "
                   "names are spelled like names of another level: an extra column equal to the Peptide string in "
                   "about half of the rows, or two extra columns drawing from one name pool, or both; level order "
                   "shuffled in half of the cases; CONFIDENCE_CHUNK_SIZE in {default,1,2,3,5,8}, tie-free scores; "
                   "%s" % (n, seed, common),
                   "tables from gen_table(overlap=...); oracle as in assign_confidence_levels (every level "
                   "de-duplicated on its own column only); non-trivial = among the PSMs retained by the "
                   "competition of some collection one string names entities of two different level columns")
    elif cls == "confusable":
        ck = Check("assign_confidence_confusable_spectra", "mokapot.confidence.assign_confidence",
                   "random: %d configurations (seed %d) with de-duplication on and, in every collection, spectrum "
                   "keys (ScanNr, ExpMass) in groups of 2-3 distinct keys that are easy to confuse: the digits of one "
                   "string of 3-5 digits split at different places into ScanNr and the integer part of ExpMass "
                   "(e.g. (1, 11.5) and (11, 1.5); at least one such group per collection), one ScanNr with 2-3 "
                   "ExpMass values, one ExpMass with 2-3 ScanNr values; the first ceil(n/3) spectra of a collection "
                   "of n PSMs get such keys, the others plain ones; 0-2 extra level columns, rollup on and off, "
                   "CONFIDENCE_CHUNK_SIZE in {default,1,2,3,5,8}, tie-free scores; %s"
                   % (n, seed, common.replace("de-dup/decoys/prefixes", "decoys/prefixes")),
                   "tables from gen_table(spectra=True) with keys from gen_spectra; oracle as in "
                   "assign_confidence_levels (a spectrum = one distinct pair of values of the two spectrum "
                   "columns); non-trivial = some collection holds two distinct keys with the same concatenated text "
                   "and two distinct keys that agree in exactly one column")
    else:
        ck = Check("assign_confidence_zero_score", "mokapot.confidence.assign_confidence",
                   "random: %d configurations (seed %d) with CONFIDENCE_CHUNK_SIZE in {1,2,3,5,8} and 10-30 PSMs "
                   "per collection (several sorted chunk files are merged); in one collection the tie-free score "
                   "vector is shifted so that exactly one score of uniformly drawn rank (not best, not worst) is "
                   "exactly 0.0 and all lower scores are negative; 0-2 extra level columns, rollup on and off; "
                   "%s" % (n, seed, common),
                   "tables from gen_table, scores from gen_scores(zero=True); oracle as in "
                   "assign_confidence_levels; non-trivial = in file order the 0.0 PSM lies in a chunk before a "
                   "chunk that holds a negative score")
    rng = np.random.default_rng([seed, {"alike": 31, "zero": 32, "confusable": 34}[cls]])
    cfgs = [gen_config_class(rng, tier, cls) for _ in range(n)]
    for cfg, (nt, bad) in zip(cfgs, _pool_map(_assign_worker, cfgs)):
        ck.case(cfg, nontrivial=nt)
        for case_id, msg in bad:
            ck.violation("%s/%s" % (case_id, CLASS_TAG[cls]), msg, cfg)
    return ck


# ----------------------------------------------------------------------------------------------- rollup tool
TOOL_BASE = {"psm": None, "precursor": "Precursor", "peptide": "Peptide"}   # --level -> level column of the base


def _tool_levels(cfg):
    """level columns for which brew_rollup --level <tool_level> has to write result files: from psm and from
    precursor every level column of the files, from peptide (the top of the hierarchy) the peptide level only"""
    return ["Peptide"] if cfg.get("tool_level") == "peptide" else list(cfg["level_columns"])


def _base_rows(cfg, tables):
    """per collection the input rows that the property says are in its result file of the tool's base level"""
    col = TOOL_BASE[cfg.get("tool_level", "psm")]
    lev = "psms" if col is None else col.lower() + "s"
    return [retained_levels(df, sc, dict(cfg, rollup=True))[lev] for df, sc in tables]


def _union_usable(cfg, tables):
    """the union of the base-level rows (PSM-level rows for --level psm) must allow PEP estimation at every rollup
    level (cf. _usable)"""
    rows = pd.concat(_base_rows(cfg, tables), ignore_index=True)
    return _usable(rows.drop(columns=["score", "target"]), rows["score"].values,
                   dict(cfg, dedup=False, level_columns=_tool_levels(cfg)))


def _shared_base_entities(cfg, tables):
    """number of entities of the tool's base level that occur in the base-level rows of two or more collections"""
    col = TOOL_BASE[cfg.get("tool_level", "psm")]
    if col is None:
        return 0
    seen = pd.concat([r[col].drop_duplicates() for r in _base_rows(cfg, tables)])
    return int((seen.value_counts() > 1).sum())


def _rollup_worker(cfg):
    from mokapot.brew_rollup import main as rollup_main
    cfg = dict(cfg)
    while True:
        tables = build_case(cfg)
        if _union_usable(cfg, tables):
            break
        cfg["seed"] += 1
    with scratch("c03r_") as d:
        bad = rollup_case(cfg, tables, d, rollup_main)
    if cfg.get("tool_level", "psm") != "psm":
        nt = _shared_base_entities(cfg, tables) > 0
    else:
        nt = len(tables) > 1 or any(retained_levels(df, sc, cfg)["psms"].duplicated("Peptide").any()
                                    for df, sc in tables)
    return cfg, nt, bad


def check_rollup_tool(tier, seed, n_cases=None):
    n = n_cases or (30 if tier == "quick" else 450)
    n_cls = max(2, n // 10)
    n_base = max(4, n // 4)
    ck = Check("rollup_tool", "mokapot.brew_rollup.main",
               "random: %d cases (seed %d): 1-3 prefixed collections of 12-30 PSMs; their *.psms result files "
               "written by assign_confidence (de-dup on, decoys on, CSV) are rolled up by brew_rollup --level psm "
               "into a second directory; 0-1 extra level column (Precursor/ModifiedPeptide/PeptideGroup); plus %d "
               "cases with one extra level column that is spelled like the Peptide in about half of the rows and %d "
               "cases in which one collection's score vector holds exactly one 0.0 with negative scores below it "
               "(CONFIDENCE_CHUNK_SIZE in {1,2,3,5,8} while the PSM files are written); plus %d cases with 2-3 "
               "collections (entity names are shared between collections) whose result files of a higher level are "
               "rolled up: alternately the *.precursors files (extra level columns Precursor, or Precursor and one "
               "of ModifiedPeptide/PeptideGroup) by --level precursor and the *.peptides files (0-1 extra level "
               "column) by --level peptide" % (n, seed, n_cls, n_cls, n_base),
               "oracle = per rollup level the best row per entity among the union of the previously written rows "
               "of the base level (targets and decoys of all collections), C01 formula on those; expected levels: "
               "every level column of the files for --level psm and --level precursor (precursor level included), "
               "the peptide level for --level peptide; non-trivial = several collections or a peptide occurring in "
               "more than one input row; for --level precursor/peptide: an entity of the base level occurs in the "
               "files of two or more collections")
    rng = np.random.default_rng(seed + 7)
    cfgs = []
    for _ in range(n):
        cfg = gen_config(rng, tier)
        cfg.update(dedup=True, rollup=False, decoys=True, prefixes=True, fmt=".pin")
        cfg["n_rows"] = [max(12, x) for x in cfg["n_rows"]]
        cfg["extra"] = cfg["extra"][:1]
        cfg["level_columns"] = cfg["extra"] + ["Peptide"]
        cfgs.append(cfg)
    # the two input classes of gen_config_class, here for the tool's own merge of the result files and its own
    # per-level de-duplication
    rng = np.random.default_rng([seed, 33])
    for i in range(2 * n_cls):
        cfg = gen_config_class(rng, tier, "alike" if i % 2 == 0 else "zero")
        cfg.update(dedup=True, rollup=False, decoys=True, prefixes=True, fmt=".pin")
        cfg["n_rows"] = [max(12, x) for x in cfg["n_rows"]]
        if cfg["cls"] == "alike":
            cfg.update(extra=cfg["extra"][:1], overlap="as-peptide")
        else:
            cfg["extra"] = cfg["extra"][:1]
        cfg["level_columns"] = cfg["extra"] + ["Peptide"]
        cfgs.append(cfg)
    # result files of a higher level as the tool's input: the base level itself has to be de-duplicated over the
    # collections, and the levels above it are derived from it
    rng = np.random.default_rng([seed, 35])
    for i in range(n_base):
        cfg = gen_config(rng, tier)
        cfg.update(dedup=True, rollup=False, decoys=True, prefixes=True, fmt=".pin")
        if len(cfg["n_rows"]) < 2:
            cfg["n_rows"] = cfg["n_rows"] + [int(rng.integers(12, 31)) for _ in range(int(rng.integers(1, 3)))]
        cfg["n_rows"] = [max(12, x) for x in cfg["n_rows"]]
        if i % 2 == 0:
            other = [c for c in cfg["extra"] if c != "Precursor"][:1]
            cfg.update(tool_level="precursor", extra=["Precursor"] + other)
        else:
            cfg.update(tool_level="peptide", extra=cfg["extra"][:1])
        cfg["level_columns"] = cfg["extra"] + ["Peptide"]
        cfgs.append(cfg)
    for cfg, nt, bad in _pool_map(_rollup_worker, cfgs):
        ck.case(cfg, nontrivial=nt)
        tag = "/" + CLASS_TAG[cfg["cls"]] if cfg.get("cls") else ""
        if cfg.get("tool_level"):
            tag += "/tool-level-" + cfg["tool_level"]
        for case_id, msg in bad:
            ck.violation(case_id + tag, msg, cfg)
    return ck


ROLLUP_LEVEL_OF = {"Precursor": "precursor", "ModifiedPeptide": "modified_peptide", "PeptideGroup": "peptide_group",
                   "Peptide": "peptide"}


def rollup_case(cfg, tables, d, rollup_main):
    """assign_confidence without rollup but WITH the extra column in the output is not possible (extra columns
    are only written when do_rollup is on), so the PSM files are produced with do_rollup=True and only the
    *.psms files are handed to the tool."""
    cfg2 = dict(cfg, rollup=True)
    try:
        out, prefixes = run_assign(cfg2, tables, d)
    except BaseException as e:
        return [("run-failed-%s" % type(e).__name__, "assign_confidence raised %s" % str(e)[:200])]
    src = Path(d) / "src"
    src.mkdir()
    rows = []
    tool_level = cfg.get("tool_level", "psm")
    for p in prefixes:
        for kind in ("targets", "decoys"):
            fn = "%s.%s.%ss" % (p, kind, tool_level)
            if not (out / fn).exists():
                return [("result-file-missing", "assign_confidence did not write %s (directory holds %s)"
                         % (fn, sorted(os.listdir(out))))]
            os.rename(out / fn, src / fn)
            t = pd.read_csv(src / fn, sep="\t")
            t["target"] = kind == "targets"
            rows.append(t)
    dest = Path(d) / "dest"
    try:
        rollup_main(["--level", tool_level, "--src_dir", str(src), "--dest_dir", str(dest), "-v", "0"])
    except BaseException as e:
        return [("rollup-failed-%s" % type(e).__name__, "brew_rollup raised %s: %s" % (type(e).__name__, str(e)[:200]))]
    allrows = pd.concat(rows, ignore_index=True)
    bad = []
    for col in _tool_levels(cfg):
        lev = ROLLUP_LEVEL_OF[col]
        key = "peptide" if col == "Peptide" else col
        keep = [g["score"].idxmax() for _, g in allrows.groupby(key, sort=False)]
        e = allrows.loc[keep].sort_values("score", ascending=False).reset_index(drop=True)
        e["q"] = c01_qvalues(e["score"].values, e["target"].values)
        for kind in ("targets", "decoys"):
            fn = dest / ("rollup.%s.%ss" % (kind, lev))
            if not fn.exists():
                bad.append(("result-file-missing", "%s missing" % fn.name))
                continue
            got = pd.read_csv(fn, sep="\t")
            ee = e[e["target"] == (kind == "targets")].reset_index(drop=True)
            ren = {"psm_id": "PSMId", "q_value": "q-value", "precursor": "Precursor",
                   "modified_peptide": "ModifiedPeptide", "peptide_group": "PeptideGroup"}
            got = got.rename(columns=ren)
            ee = ee.rename(columns={"PSMId": "SpecId", "peptide": "Peptide", "proteinIds": "Proteins"})
            bad += compare_level(got, ee, cfg["extra"], fn.name)
    return bad


# ----------------------------------------------------------------------------------------------- replay
def REPLAY(check_name, violation):
    inp = violation["input"]
    if isinstance(inp, str):
        inp = json.loads(inp)
    if check_name in ("assign_confidence_levels", "assign_confidence_alike_level_names",
                      "assign_confidence_zero_score", "assign_confidence_confusable_spectra"):
        _, bad = run_case(inp)
    elif check_name == "rollup_tool":
        _, _, bad = _rollup_worker(inp)
    else:
        return {"violated": None, "note": "no replay for %s" % check_name}
    return {"violated": bool(bad), "detail": bad[:5]}


if __name__ == "__main__":
    a = args()
    np.random.seed(a.seed)
    emit([check_assign(a.tier, a.seed), check_assign_class(a.tier, a.seed, "alike"),
          check_assign_class(a.tier, a.seed, "zero"), check_assign_class(a.tier, a.seed, "confusable"),
          check_rollup_tool(a.tier, a.seed)],
         ["PEP values are not checked here (C06); qvality needs targets and decoys among the retained rows, so "
          "tables without >= 2 retained targets and >= 2 retained decoys are regenerated",
          "scores are tie-free (at most one exact 0.0 per case, in the zero-score classes only); protein level "
          "(FASTA) not exercised; max_workers=1; only CONFIDENCE_CHUNK_SIZE is varied, the other chunk sizes keep "
          "their defaults (chunking is C05)",
          "entity names shared between level columns are generated only in the alike-level-names classes; "
          "spectrum keys are never spelled like an entity name",
          "confusable spectrum keys (distinct keys equal in one column or in their concatenated text) are generated "
          "only in assign_confidence_confusable_spectra; the spectrum columns are the numeric ScanNr and ExpMass",
          "rollup_tool: the input files are produced by assign_confidence itself; the tool is run with --level psm, "
          "and on 2-3 collections with --level precursor and --level peptide; --level modifiedpeptide and "
          "--level peptidegroup are not exercised; CSV result files only"])
