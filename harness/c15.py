"""C15 bounded stand-in: mokapot.picked_protein.picked_protein (+ strip_peptides, group_with_decoys,
group_without_decoys, utils.groupby_max) on small peptide tables.

Oracle, from the statement: for every target/decoy protein-group pair take the rows of the peptide table whose
unmodified sequence (known by construction: the decorated peptide strings are built here from plain sequences) is a
UNIQUE peptide of the target group or of its decoy counterpart; if there is at least one, the result holds exactly
one entry for the pair: group name, peptide string, plain sequence, score and target flag of the best-scoring such
row. Rows of peptides shared between groups contribute nothing, so the result holds nothing else.
All scores are distinct.

protein_level_pipeline runs the whole of mokapot.assign_confidence(..., proteins=...) on small PSM tables under several
level configurations (peptide level only; finer further levels ModifiedPeptide / Precursor; a coarser further level
PeptideGroup after the peptides; do_rollup off where that runs) and compares targets.proteins + decoys.proteins with
the entries derived here from the retained peptide-level rows, the q-value column with the C01 formula over exactly
these entries.
"""
import itertools
import json
import logging
import multiprocessing
import random
import time
import warnings

import numpy as np
import pandas as pd

from harness.common import Check, args, emit
from harness.datasets import scratch

logging.disable(logging.CRITICAL)
warnings.filterwarnings("ignore")

PEPS = ["ACDEFGK", "HILMNPK", "QSTVWYK", "GASPVTR", "DEHIFYR"]       # pairwise different compositions
PREFIX = "decoy_"
N_STYLES = 10


def mirror(pep):
    return pep[0] + pep[1:-1][::-1] + pep[-1]


def decorate(plain, style):
    """the same peptide in the notations search engines use; the unmodified sequence stays `plain`"""
    s = style % N_STYLES
    if s == 0:
        return plain
    if s == 1:
        return plain[:2] + "[+15.99]" + plain[2:]
    if s == 2:
        return plain[:3] + "(ox)" + plain[3:]
    if s == 3:
        return "K." + plain + ".A"
    if s == 4:
        return "-." + plain + ".-"
    if s == 5:
        return "R." + plain[0] + "[+42.01]" + plain[1:4] + "(ph)" + plain[4:] + ".A"
    if s == 6:
        return "n" + plain + "c"
    if s == 7:
        return "n[+42.01]" + plain
    if s == 8:
        return "".join(c + "[+15.99]" for c in plain[:3]) + plain[3:]
    return "K." + plain[:-1] + "(+15.99)" + plain[-1] + ".-"


def group_name(j, side):
    """odd groups have two members, to exercise the first-member pairing"""
    members = ["p%d" % j] + (["q%d" % j] if j % 2 else [])
    if side == "D":
        members = [PREFIX + m for m in members]
    return ", ".join(members)


def build_proteins(n_groups, assign, has_decoys, peps=PEPS):
    """assign: per peptide the tuple of groups that contain it -> a Proteins object as read_fasta would build it"""
    from mokapot.proteins import Proteins
    peptide_map, shared = {}, {}
    for i, gs in enumerate(assign):
        for side in ("T", "D") if has_decoys else ("T",):
            pep = peps[i] if side == "T" else mirror(peps[i])
            if len(gs) == 1:
                peptide_map[pep] = group_name(gs[0], side)
            else:
                shared[pep] = "; ".join(group_name(j, side) for j in gs)
    protein_map = {}
    for j in range(n_groups):
        for m in group_name(j, "T").split(", "):
            protein_map[m] = PREFIX + m
    return Proteins(decoy_prefix=PREFIX, peptide_map=peptide_map, protein_map=protein_map, shared_peptides=shared,
                    has_decoys=has_decoys)


def build_table(n_groups, assign, winners, counter, rng):
    """rows: dicts(text, plain, target, groups, score). Winners: per group 'T' or 'D'."""
    lower = counter % 7 == 3
    rows = []
    for i, gs in enumerate(assign):
        for side in ("T", "D"):
            if counter % 2 and rng.random() < 0.3:
                continue                                                   # peptide not retained on this side
            plain = PEPS[i] if side == "T" else mirror(PEPS[i])
            forms = [counter + 3 * i + (side == "D")]
            if counter % 4 == 1 and i == 0:
                forms.append(forms[0] + 1)                                 # the same peptide in a second notation
            for st in forms:
                text = (("k." + plain.lower() + ".a") if st % 2 else plain.lower()) if lower else decorate(plain, st)
                rows.append({"text": text, "plain": plain, "target": side == "T", "groups": gs})
    vals = list(range(len(rows)))
    rng.shuffle(vals)
    if counter % 3 == 0:                                                   # shared peptides score best of all
        order = sorted(range(len(rows)), key=lambda r: len(rows[r]["groups"]) < 2)
        vals_sorted = sorted(vals, reverse=True)
        for r, v in zip(order, vals_sorted):
            rows[r]["score"] = 10 + 0.5 * v
    else:
        for r, v in zip(rows, vals):
            r["score"] = 10 + 0.5 * v
    for j in range(n_groups):
        mine = [r for r in rows if r["groups"] == (j,)]
        t = [r for r in mine if r["target"]]
        dd = [r for r in mine if not r["target"]]
        if t and dd:
            bt = max(t, key=lambda r: r["score"])
            bd = max(dd, key=lambda r: r["score"])
            if (bt["score"] > bd["score"]) != (winners[j] == "T"):
                bt["score"], bd["score"] = bd["score"], bt["score"]
    rng.shuffle(rows)
    return rows


def expected_entries(n_groups, rows):
    """pair index -> (group name, peptide text, plain sequence, score, target flag)"""
    exp = {}
    for j in range(n_groups):
        mine = [r for r in rows if r["groups"] == (j,)]
        if mine:
            b = max(mine, key=lambda r: r["score"])
            exp[j] = (group_name(j, "T" if b["target"] else "D"), b["text"], b["plain"], b["score"], b["target"])
    return exp


def compare(out, exp, pair_of_group, rows, has_decoys, layout=None):
    """-> list of (case, what). out: DataFrame returned by picked_protein; pair_of_group: group key -> pair id"""
    problems = []
    want_cols = ["mokapot protein group", "best peptide", "stripped sequence", "score", "Label"]
    if list(out.columns) != want_cols:
        return [("result-columns", "%s" % list(out.columns))]
    shared_texts = {r["text"] for r in rows if len(r["groups"]) > 1}
    seen = {}
    for rec in out.itertuples(index=False):
        g, text, stripped, score, target = rec
        if not isinstance(g, str):
            problems.append(("nan-group-entry-from-unmatched-decoy" if not has_decoys and not target
                             else "nan-group-entry", "entry without protein group: %s" % (tuple(rec),)))
            continue
        key = pair_of_group(g)
        if key is None:
            problems.append(("unknown-group", "entry %s" % (tuple(rec),)))
            continue
        seen.setdefault(key, []).append((g, text, stripped, float(score), bool(target)))
    for key, got in seen.items():
        if len(got) > 1:
            problems.append(("pair-split-when-decoy-members-ordered-differently" if layout == "decoys_reversed"
                             else "two-entries-for-one-pair", "entries %s" % got))
            continue
        if key not in exp:
            problems.append(("entry-from-shared-peptide" if got[0][1] in shared_texts else "unexpected-entry",
                             "entry %s for a pair without retained unique peptide" % (got[0],)))
            continue
        e = exp[key]
        g = got[0]
        if g[4] != e[4] or _members(g[0]) != _members(e[0]):
            problems.append(("wrong-side-wins", "got %s expected %s" % (g, e)))
        elif g[1] != e[1]:
            problems.append(("entry-from-shared-peptide" if g[1] in shared_texts else "wrong-best-peptide",
                             "got %s expected %s" % (g, e)))
        elif g[2] != e[2]:
            problems.append(("wrong-stripped-sequence", "got %s expected %s" % (g, e)))
        elif g[3] != e[3]:
            problems.append(("wrong-score", "got %s expected %s" % (g, e)))
    for key in exp:
        if key not in seen:
            problems.append(("missing-entry", "no entry for the pair of %r, expected %s" % (exp[key][0], exp[key],)))
    return problems


def _raise_case(e, rows):
    """an exception instead of a result; the class of input is named when no row belongs to a unique peptide"""
    no_unique = not any(len(r["groups"]) == 1 for r in rows)
    return ("raises-when-no-unique-peptide-retained" if no_unique else "picked_protein-raises",
            "%s: %s (%d rows, %d of unique peptides)" % (type(e).__name__, str(e)[:200], len(rows),
                                                         sum(len(r["groups"]) == 1 for r in rows)))


def _members(g):
    return frozenset(g.split(", "))


def frame(rows):
    return pd.DataFrame({"Label": [bool(r["target"]) for r in rows], "extra": range(len(rows)),
                         "Peptide": [r["text"] for r in rows], "score": [float(r["score"]) for r in rows]})


def run_direct(n_groups, assign, winners, counter, has_decoys, seed):
    from mokapot.picked_protein import picked_protein
    rng = random.Random("%s-%s" % (seed, counter))
    rows = build_table(n_groups, assign, winners, counter, rng)
    if not rows:
        return None, rows
    prot = build_proteins(n_groups, assign, has_decoys)
    exp = expected_entries(n_groups, rows)
    names = {}
    for j in range(n_groups):
        names[group_name(j, "T")] = j
        names[group_name(j, "D")] = j
    np.random.seed(seed + counter)                          # match_decoy samples with the global RNG
    try:
        out = picked_protein(frame(rows), "Label", "Peptide", "score", prot,
                             (seed + counter) if counter % 2 else np.random.default_rng(seed + counter))
    except Exception as e:                                   # noqa: BLE001
        return [_raise_case(e, rows)], rows
    return compare(out, exp, names.get, rows, has_decoys), rows


def structures(max_groups, max_peps):
    """(n_groups, assign): every peptide lies in a non-empty set of groups; multisets, i.e. up to renaming peptides"""
    out = []
    for g in range(1, max_groups + 1):
        subsets = [c for n in range(1, g + 1) for c in itertools.combinations(range(g), n)]
        for k in range(1, max_peps + 1):
            for assign in itertools.combinations_with_replacement(subsets, k):
                out.append((g, assign))
    return out


def _work(job):
    structs, has_decoys, seed, base = job
    evals = 0
    keys = []
    viols = []
    for si, (g, assign) in enumerate(structs):
        # the winner only matters for groups that own a unique peptide; the others are fixed to "T"
        owners = [j for j in range(g) if (j,) in assign]
        for wi, choice in enumerate(itertools.product("TD", repeat=len(owners))):
            winners = tuple(choice[owners.index(j)] if j in owners else "T" for j in range(g))
            counter = base + si * 16 + wi
            problems, rows = run_direct(g, assign, winners, counter, has_decoys, seed)
            if problems is None:
                continue
            evals += 1
            uniq_groups = {r["groups"] for r in rows if len(r["groups"]) == 1}
            nontrivial = bool(uniq_groups) and (any(len(r["groups"]) > 1 for r in rows) or
                                                any(sum(1 for r in rows if r["groups"] == u) > 1
                                                    for u in uniq_groups))
            keys.append(((g, assign, winners, has_decoys), nontrivial))
            for case, what in problems:
                if sum(1 for v in viols if v[0] == case) < 3:
                    viols.append((case, what, {"n_groups": g, "assign": assign, "winners": "".join(winners),
                                               "counter": counter, "has_decoys": has_decoys, "seed": seed,
                                               "n_rows": len(rows)}))
    return evals, keys, viols


def _direct(tier, seed, has_decoys):
    max_g, max_k = (3, 5) if tier == "quick" else (4, 5)
    structs = structures(max_g, max_k)
    name = "picked_with_decoys" if has_decoys else "picked_without_decoys"
    ck = Check(name, "mokapot.picked_protein.picked_protein, strip_peptides, %s, mokapot.utils.groupby_max"
               % ("group_with_decoys" if has_decoys else "group_without_decoys, mokapot.peptides.match_decoy"),
               "exhaustive: all %d assignments of 1..%d peptides to non-empty subsets of 1..%d protein groups (up to "
               "renaming peptides; unique and shared peptides, groups without unique peptide) x all target/decoy "
               "winners of the groups owning a unique peptide; Proteins object built directly with has_decoys=%s; per case a table with the "
               "target and the decoy form of every peptide (every other case drops rows with p=0.3, seed %d), %d "
               "modification/flank/lowercase notations cycled, every 7th table all lowercase, every 4th holds a "
               "peptide in two notations, every 3rd gives the shared peptides the highest scores; distinct scores"
               % (len(structs), max_k, max_g, has_decoys, seed, N_STYLES),
               "result rows == one entry per pair with a retained unique peptide, equal to the best-scoring unique row "
               "(group, peptide text, plain sequence, score, target flag); non-trivial = a shared peptide is present "
               "or some group pair has >= 2 unique rows to choose from")
    import mokapot.picked_protein                       # noqa: F401  (imported once, before the workers fork)
    n_chunks = 32
    jobs = [(structs[i::n_chunks], has_decoys, seed, i * 1000003) for i in range(n_chunks)]
    with multiprocessing.Pool(min(16, multiprocessing.cpu_count())) as pool:
        parts = pool.map(_work, jobs)
    for evals, keys, viols in parts:
        for k, nt in keys:
            ck.case(k, nontrivial=nt)
    allv = sorted((v for p in parts for v in p[2]), key=lambda v: (v[2]["n_rows"], v[2]["n_groups"],
                                                                    len(v[2]["assign"]), json.dumps(v[2])))
    _feed(ck, allv)
    return ck


def _feed(ck, viols):
    seen = set()
    rest = []
    for v in viols:
        if v[0] not in seen:
            seen.add(v[0])
            ck.violation(*v)
        else:
            rest.append(v)
    for v in rest:
        ck.violation(*v)


def check_with_decoys(tier, seed):
    return _direct(tier, seed, True)


def check_without_decoys(tier, seed):
    return _direct(tier, seed, False)


# ------------------------------------------------------------------ Proteins built by read_fasta from a tiny FASTA
LAYOUTS = ["concat", "decoys_reversed", "none"]


def fasta_case(combo, n_pep, layout, counter, seed, d):
    """combo: per target protein a bit mask of its peptides. -> (problems or None, description)"""
    from mokapot.parsers.fasta import read_fasta
    from mokapot.picked_protein import picked_protein
    sets = [frozenset(PEPS[i] for i in range(n_pep) if m >> i & 1) for m in combo]
    targets = [("p%d" % i, "".join(PEPS[k] for k in range(n_pep) if m >> k & 1)) for i, m in enumerate(combo)]
    decoys = [(PREFIX + n, "".join(mirror(s[k:k + 7]) for k in range(0, len(s), 7))) for n, s in targets]
    records = targets + {"concat": decoys, "decoys_reversed": decoys[::-1], "none": []}[layout]
    path = str(d / "db.fasta")
    with open(path, "w") as f:
        f.write("".join(">%s\n%s\n" % r for r in records))
    prot = read_fasta(path, missed_cleavages=0)
    has_decoys = layout != "none"
    # the grouping demanded by C16: one group per maximal peptide set, members = the proteins contained in it
    distinct = {s for s in sets if s}
    maximal = sorted((s for s in distinct if not any(s < t for t in distinct)), key=sorted)
    count = {}
    for s in maximal:
        for pep in s:
            count[pep] = count.get(pep, 0) + 1
    rng = random.Random("%s-%s" % (seed, counter))
    rows = []
    for i in range(n_pep):
        if PEPS[i] not in count:
            continue
        gs = tuple(j for j, s in enumerate(maximal) if PEPS[i] in s)
        for side in ("T", "D"):
            if counter % 2 and rng.random() < 0.25:
                continue
            plain = PEPS[i] if side == "T" else mirror(PEPS[i])
            rows.append({"text": decorate(plain, counter + 3 * i + (side == "D")), "plain": plain,
                         "target": side == "T", "groups": gs})
    if not any(r["target"] for r in rows):
        return None, records
    vals = list(range(len(rows)))
    rng.shuffle(vals)
    for r, v in zip(rows, vals):
        r["score"] = 10 + 0.5 * v
    rng.shuffle(rows)
    exp = {}
    for j, s in enumerate(maximal):
        mine = [r for r in rows if r["groups"] == (j,)]
        if mine:
            b = max(mine, key=lambda r: r["score"])
            members = ["p%d" % i for i, t in enumerate(sets) if t and t <= s]
            exp[j] = (", ".join(m if b["target"] else PREFIX + m for m in members), b["text"], b["plain"], b["score"],
                      b["target"])

    def pair_of_group(g):
        ms = [m[len(PREFIX):] if m.startswith(PREFIX) else m for m in g.split(", ")]
        own = [sets[int(m[1:])] for m in ms if m[1:].isdigit() and int(m[1:]) < len(sets)]
        if len(own) != len(ms) or not own:
            return None
        top = max(own, key=len)
        return maximal.index(top) if top in maximal else None
    np.random.seed(seed + counter)
    try:
        out = picked_protein(frame(rows), "Label", "Peptide", "score", prot, seed + counter)
    except Exception as e:                                   # noqa: BLE001
        return [_raise_case(e, rows)], records
    return compare(out, exp, pair_of_group, rows, has_decoys, layout), records


def check_fasta(tier, seed):
    from harness.c16 import structures as fasta_structures
    max_prot, n_pep = (3, 3) if tier == "quick" else (4, 4)
    structs = fasta_structures(max_prot, n_pep)
    ck = Check("picked_from_fasta", "mokapot.read_fasta + mokapot.picked_protein.picked_protein",
               "exhaustive: all %d incidence structures of 1..%d proteins x %d peptides (as in C16) written as FASTA "
               "with mirrored decoys in layout %s, read by the real read_fasta(missed_cleavages=0); one random table "
               "per case (seed %d; target and decoy form of every peptide, every other case drops rows with p=0.25), "
               "notations cycled" % (len(structs), max_prot, n_pep, LAYOUTS, seed),
               "as picked_with_decoys, the protein-group pairs being the maximal peptide sets of the structure and "
               "their mirrored decoy counterparts (groups compared as member sets); non-trivial = two proteins share a "
               "peptide or have equal/nested peptide sets")
    viols = []
    with scratch("c15_") as d:
        counter = 0
        for combo in structs:
            sets = [frozenset(i for i in range(n_pep) if m >> i & 1) for m in combo]
            ne = [s for s in sets if s]
            nontrivial = any(a & b for i, a in enumerate(ne) for b in ne[i + 1:])
            for layout in LAYOUTS:
                counter += 1
                problems, records = fasta_case(combo, n_pep, layout, counter, seed, d)
                if problems is None:
                    continue
                ck.case((combo, layout), nontrivial=nontrivial)
                for case, what in problems:
                    viols.append((case, what, {"structure": combo, "n_pep": n_pep, "layout": layout,
                                               "counter": counter, "seed": seed, "records": records}))
    _feed(ck, sorted(viols, key=lambda v: (len(v[2]["records"]), sum(len(r[1]) for r in v[2]["records"]))))
    return ck


# ------------------------------------------------------------------ strip_peptides alone
def check_strip(tier, seed):
    from mokapot.picked_protein import strip_peptides
    ck = Check("strip_peptides", "mokapot.picked_protein.strip_peptides",
               "exhaustive: %d plain peptides (and their mirrored forms) x %d notations, as one mixed Series, as one "
               "Series per notation, and two all-lowercase Series (with and without flanking residues)"
               % (len(PEPS), N_STYLES),
               "strip_peptides(decorated) == plain sequence; non-trivial = the notation adds something")
    plains = PEPS + [mirror(p) for p in PEPS]
    series = [("mixed", [(decorate(p, s), p) for p in plains for s in range(N_STYLES)])]
    for s in range(N_STYLES):
        series.append(("style%d" % s, [(decorate(p, s), p) for p in plains]))
    series.append(("lower", [(p.lower(), p) for p in plains]))
    series.append(("lower-flanked", [("k." + p.lower() + ".a", p) for p in plains]))
    for name, items in series:
        got = list(strip_peptides(pd.Series([t for t, _ in items])))
        for (text, plain), g in zip(items, got):
            ck.case((name, text), nontrivial=text != plain)
            if g != plain:
                ck.violation("strip-" + name, "%r stripped to %r, plain sequence %r"
                             % (text, g, plain), {"series": [t for t, _ in items], "plain": [p for _, p in items]})
    return ck


# ------------------------------------------------------------------ the whole pipeline: assign_confidence(proteins=...)
AA = "ACDEFGHILMNPQSTVWY"
PROT_COLS = ["mokapot protein group", "best peptide", "stripped sequence", "score", "q-value", "posterior_error_prob"]
# (class of level configuration, level_columns as read_percolator orders them: the peptide column first, do_rollup)
LEVEL_CONFIGS = [
    ("peptide-level-only", ["Peptide"], True),
    ("finer-extra-levels", ["Peptide", "ModifiedPeptide"], True),
    ("finer-extra-levels", ["Peptide", "Precursor"], True),
    ("finer-extra-levels", ["Peptide", "ModifiedPeptide", "Precursor"], True),
    ("coarser-extra-level", ["Peptide", "PeptideGroup"], True),
    ("coarser-extra-level", ["Peptide", "ModifiedPeptide", "Precursor", "PeptideGroup"], True),
    ("coarser-extra-level", ["Peptide", "PeptideGroup", "Precursor"], True),
    ("no-rollup", ["Peptide"], False),
    ("no-rollup", ["Peptide", "PeptideGroup"], False),
]
GROUPINGS = ["any-peptides", "same-side-peptides", "within-pair-side"]


def plain_peptides(n, rng):
    """n different 7-residue sequences, none of them the mirror image of itself or of another one"""
    out, used = [], set()
    while len(out) < n:
        p = "".join(rng.choice(AA) for _ in range(6)) + rng.choice("KR")
        if mirror(p) == p or p in used or mirror(p) in used:
            continue
        used.update((p, mirror(p)))
        out.append(p)
    return out


def pipeline_dataset(seed, idx, attempt=0):
    """-> dict(n_groups, assign, peps, psms). psms: one dict per PSM (spectrum, score, the level columns, and what
    is known by construction: plain sequence, side, protein groups holding the peptide)"""
    rng = random.Random("pipeline-%s-%s-%s" % (seed, idx, attempt))
    n_groups = rng.randint(8, 14)
    n_pep = n_groups + rng.randint(4, 12)
    peps = plain_peptides(n_pep, rng)
    assign = []
    for i in range(n_pep):
        if rng.random() < 0.8:
            assign.append((rng.randrange(n_groups),))
        else:
            assign.append(tuple(sorted(rng.sample(range(n_groups), 2))))
    psms = []
    for i, gs in enumerate(assign):
        for side in ("T", "D"):
            if rng.random() < 0.15:
                continue                                                   # never identified
            plain = peps[i] if side == "T" else mirror(peps[i])
            st = rng.randrange(N_STYLES)
            for text in [decorate(plain, st)] + ([decorate(plain, st + 1 + rng.randrange(N_STYLES - 1))]
                                                if rng.random() < 0.3 else []):
                for k in range(rng.randint(1, 3)):
                    mod = text + ("" if k == 0 else "~v%d" % rng.randint(1, 2))
                    psms.append({"text": text, "plain": plain, "target": side == "T", "groups": gs, "pep": i,
                                 "ModifiedPeptide": mod, "Precursor": "%s/%d" % (mod, rng.randint(2, 3)),
                                 "rank": rng.random() + (0.5 if side == "T" and i % 3 else 0.0)})
    rng.shuffle(psms)
    order = sorted(range(len(psms)), key=lambda r: psms[r]["rank"])
    for v, r in enumerate(order):
        psms[r]["score"] = 10 + 0.5 * v                                    # pairwise distinct, exact in text files
    scan = 0
    for n, r in enumerate(psms):
        if n == 0 or rng.random() >= 0.25:
            scan += 1                                                      # otherwise: competes for the previous spectrum
        r["scan"] = scan
    # the peptide-group column: a partition of the peptide strings (so coarser than the peptide level)
    mode = GROUPINGS[idx % len(GROUPINGS)]
    texts = sorted({r["text"] for r in psms})
    rng.shuffle(texts)
    info = {r["text"]: r for r in psms}
    group_of = {}
    if mode == "within-pair-side":
        for t in texts:
            group_of[t] = "pg%s%s" % ("_".join(map(str, info[t]["groups"])), "t" if info[t]["target"] else "d")
    else:
        pools = [texts] if mode == "any-peptides" else [[t for t in texts if info[t]["target"]],
                                                         [t for t in texts if not info[t]["target"]]]
        n = 0
        for pool in pools:
            k = 0
            while k < len(pool):
                size = rng.randint(1, 3)
                for t in pool[k:k + size]:
                    group_of[t] = "pg%d" % n
                n += 1
                k += size
    for r in psms:
        r["PeptideGroup"] = group_of[r["text"]]
    return {"n_groups": n_groups, "assign": assign, "peps": peps, "psms": psms, "grouping": mode}


def retained_peptides(psms):
    """the peptide level by its definition: of the PSMs that are the best of their spectrum, the best one of every
    peptide string"""
    best_of_spectrum = {}
    for r in psms:
        if r["scan"] not in best_of_spectrum or r["score"] > best_of_spectrum[r["scan"]]["score"]:
            best_of_spectrum[r["scan"]] = r
    best_of_peptide = {}
    for r in best_of_spectrum.values():
        if r["text"] not in best_of_peptide or r["score"] > best_of_peptide[r["text"]]["score"]:
            best_of_peptide[r["text"]] = r
    return list(best_of_peptide.values())


def formula_qvalues(entries):
    """C01 formula, literally: q_i = min({1} u {(D(t) + 1) / T(t): t at or worse than score_i, T(t) > 0}); the counts
    only change at attained scores. entries: [(score, target flag)] -> floats"""
    out = []
    for s, _ in entries:
        q = 1.0
        for t in {e[0] for e in entries if e[0] <= s}:
            n_t = sum(1 for e in entries if e[0] >= t and e[1])
            n_d = sum(1 for e in entries if e[0] >= t and not e[1])
            if n_t:
                q = min(q, (n_d + 1) / n_t)
        out.append(q)
    return out


def pipeline_usable(ds):
    """both sides win a pair (without a decoy entry mokapot cannot write the level: not the subject here)"""
    exp = expected_entries(ds["n_groups"], retained_peptides(ds["psms"]))
    return len(exp) >= 6 and sum(1 for e in exp.values() if not e[4]) >= 2 and sum(1 for e in exp.values() if e[4]) >= 2


def usable_dataset(seed, idx):
    for attempt in range(50):
        ds = pipeline_dataset(seed, idx, attempt)
        if pipeline_usable(ds):
            return ds
    raise RuntimeError("no usable data set")


def pipeline_case(ds, config, d):
    """one assign_confidence call -> (problems, ran). problems: list of (case, what)"""
    from mokapot.confidence import assign_confidence
    from harness.datasets import make_ds
    klass, level_columns, do_rollup = LEVEL_CONFIGS[config]
    psms = ds["psms"]
    df = pd.DataFrame({"SpecId": ["psm%d" % n for n in range(len(psms))],
                       "Label": [1 if r["target"] else -1 for r in psms],
                       "ScanNr": [r["scan"] for r in psms],
                       "ExpMass": [500.0 + r["scan"] for r in psms],
                       "f0": [float(r["score"]) for r in psms],
                       "Peptide": [r["text"] for r in psms],
                       "ModifiedPeptide": [r["ModifiedPeptide"] for r in psms],
                       "Precursor": [r["Precursor"] for r in psms],
                       "PeptideGroup": [r["PeptideGroup"] for r in psms],
                       "Proteins": ["; ".join(group_name(j, "T" if r["target"] else "D") for j in r["groups"])
                                    for r in psms]})
    work = d / ("c%d" % config)
    (work / "out").mkdir(parents=True)
    data = make_ds(df, work / "in.pin", level_columns=level_columns,
                   extra_metadata=["ModifiedPeptide", "Precursor", "PeptideGroup"])
    prot = build_proteins(ds["n_groups"], ds["assign"], True, ds["peps"])
    np.random.seed(config)
    try:
        assign_confidence([data], max_workers=1, scores=[df["f0"].values.astype(float)], descs=[True], eval_fdr=0.2,
                          dest_dir=work / "out", prefixes=[None], decoys=True, do_rollup=do_rollup, proteins=prot,
                          rng=config)
    except BaseException as e:                                # noqa: BLE001  (qvality leaves with SystemExit)
        if not do_rollup:
            return [], False                                  # protein inference without rollup is not offered
        return [("pipeline-raises", "%s: %s" % (type(e).__name__, str(e).replace(str(d), "<dir>")[:200]))], True
    parts = []
    for name, flag in (("targets.proteins", True), ("decoys.proteins", False)):
        path = work / "out" / name
        if not path.exists():
            return [("result-file-missing", name)], True
        part = pd.read_csv(path, sep="\t")
        if list(part.columns) != PROT_COLS:
            return [("result-columns", "%s: %s" % (name, list(part.columns)))], True
        part["Label"] = flag
        parts.append(part)
    got = pd.concat(parts, ignore_index=True)
    rows = retained_peptides(psms)
    exp = expected_entries(ds["n_groups"], rows)
    names = {}
    for j in range(ds["n_groups"]):
        names[group_name(j, "T")] = j
        names[group_name(j, "D")] = j
    problems = compare(got[["mokapot protein group", "best peptide", "stripped sequence", "score", "Label"]], exp,
                       names.get, rows, True)
    if not problems:
        keys = sorted(exp)
        want_q = dict(zip(keys, formula_qvalues([(exp[j][3], exp[j][4]) for j in keys])))
        for g, q in zip(got["mokapot protein group"], got["q-value"]):
            if not abs(float(q) - want_q[names[g]]) <= 1e-6:
                problems.append(("wrong-protein-qvalue", "entry %r: q-value %r, the formula over the %d expected "
                                 "entries gives %r" % (g, float(q), len(keys), want_q[names[g]])))
    return problems, True


def _pipeline_work(job):
    seed, idx, config = job
    ds = usable_dataset(seed, idx)
    rows = retained_peptides(ds["psms"])
    group_of = {p["text"]: p["PeptideGroup"] for p in ds["psms"]}
    by_group = {}
    for r in rows:
        by_group.setdefault(group_of[r["text"]], set()).add((r["groups"], r["target"]))
    mixed = any(len(v) > 1 for v in by_group.values())       # a peptide group holds peptides of different pairs/sides
    shared = any(len(r["groups"]) > 1 for r in rows)
    klass, level_columns, do_rollup = LEVEL_CONFIGS[config]
    with scratch("c15_") as d:
        problems, ran = pipeline_case(ds, config, d)
    nontrivial = shared and (mixed or "PeptideGroup" not in level_columns)
    return (idx, config, ran, nontrivial, [("%s-with-%s" % (case, klass), what) for case, what in problems],
            len(ds["psms"]))


def check_pipeline(tier, seed):
    n_sets = 16 if tier == "quick" else 240
    t0 = time.time()
    import mokapot.confidence                           # noqa: F401  (imported once, before the workers fork)
    from mokapot.qvalues import tdc
    tdc(np.array([3.0, 2.0, 1.0]), np.array([True, False, True]))    # result unused: numba compiles once, not per worker
    with multiprocessing.Pool(min(16, multiprocessing.cpu_count())) as pool:
        results = pool.map(_pipeline_work, [(seed, idx, config) for idx in range(n_sets)
                                            for config in range(len(LEVEL_CONFIGS))], chunksize=1)
    no_rollup = [r for r in results if not LEVEL_CONFIGS[r[1]][2]]
    ck = Check("protein_level_pipeline", "mokapot.confidence.assign_confidence(proteins=...) -> targets.proteins / "
               "decoys.proteins (LinearConfidence._assign_confidence, picked_protein, qvalues_from_scores)",
               "random: %d PSM tables (seed %d; 8-14 protein-group pairs, 12-26 peptides of which ~20%% shared between "
               "two groups, target and mirrored decoy form (each missing with p=0.15), 1-2 notations per peptide, 1-3 PSMs "
               "per notation with ModifiedPeptide / Precursor variants, ~25%% of the PSMs competing for a spectrum; "
               "the PeptideGroup column partitions the peptide strings (1-3 random strings per group, of any side or of "
               "one side, or all strings of one pair and side as a harmless control): %s in turn; distinct scores, "
               "targets of two peptides in three favoured; Proteins object "
               "built directly, has_decoys=True) x %d level configurations %s; do_rollup=False is compared only where "
               "the call returns (%d of %d such calls here; otherwise nothing is checked)"
               % (n_sets, seed, GROUPINGS, len(LEVEL_CONFIGS), [(c[1], c[2]) for c in LEVEL_CONFIGS],
                  sum(1 for r in no_rollup if r[2]), len(no_rollup)),
               "rows of targets.proteins + decoys.proteins == one entry per pair owning a retained unique peptide "
               "(retained = best PSM of its spectrum, then best per peptide string; computed here from the PSM table), "
               "equal to the pair's best such peptide (group, peptide, plain sequence, score, file = winning side), "
               "whatever further levels are configured; q-value column == C01 formula over exactly these entries "
               "(abs. tol. 1e-6); non-trivial = a shared peptide is retained and, when a PeptideGroup level is "
               "configured, some peptide group holds retained peptides of different pairs or sides")
    ck.t0 = t0
    viols = []
    for idx, config, ran, nontrivial, problems, n_psms in results:
        if not ran:
            continue
        ck.case((idx, GROUPINGS[idx % len(GROUPINGS)]) + LEVEL_CONFIGS[config][1:], nontrivial=nontrivial)
        seen = set()
        for case, what in problems:
            if case not in seen:
                seen.add(case)
                viols.append((case, what, {"seed": seed, "idx": idx, "config": config,
                                           "level_columns": LEVEL_CONFIGS[config][1],
                                           "do_rollup": LEVEL_CONFIGS[config][2], "n_psms": n_psms}))
    _feed(ck, sorted(viols, key=lambda v: (v[2]["n_psms"], v[2]["idx"], v[2]["config"], v[0])))
    return ck


def REPLAY(check_name, violation):
    inp = violation["input"]
    if isinstance(inp, str):
        inp = json.loads(inp)
    if check_name in ("picked_with_decoys", "picked_without_decoys"):
        assign = tuple(tuple(a) for a in inp["assign"])
        problems, _ = run_direct(inp["n_groups"], assign, tuple(inp["winners"]), inp["counter"], inp["has_decoys"],
                                 inp["seed"])
        return {"violated": bool(problems), "detail": (problems or [])[:3]}
    if check_name == "picked_from_fasta":
        with scratch("c15_") as d:
            problems, _ = fasta_case(tuple(inp["structure"]), inp["n_pep"], inp["layout"], inp["counter"],
                                     inp["seed"], d)
        return {"violated": bool(problems), "detail": (problems or [])[:3]}
    if check_name == "protein_level_pipeline":
        with scratch("c15_") as d:
            klass = LEVEL_CONFIGS[inp["config"]][0]
            problems, ran = pipeline_case(usable_dataset(inp["seed"], inp["idx"]), inp["config"], d)
        problems = [("%s-with-%s" % (case, klass), what) for case, what in problems]
        return {"violated": bool(problems), "detail": problems[:3], "ran": ran}
    if check_name == "strip_peptides":
        from mokapot.picked_protein import strip_peptides
        got = list(strip_peptides(pd.Series(inp["series"])))
        bad = [(t, g, p) for t, g, p in zip(inp["series"], got, inp["plain"]) if g != p]
        return {"violated": bool(bad), "detail": bad[:3]}
    return {"violated": None, "note": "no replay for %s" % check_name}


if __name__ == "__main__":
    a = args()
    np.random.seed(a.seed)
    emit([check_with_decoys(a.tier, a.seed), check_without_decoys(a.tier, a.seed), check_fasta(a.tier, a.seed),
          check_strip(a.tier, a.seed), check_pipeline(a.tier, a.seed)],
         ["every peptide of the table is a unique or a shared peptide of the database (no unmappable peptides, so the "
          "'could not be mapped' error paths are not exercised); the table's target flag agrees with the side of the "
          "group that contains the peptide",
          "scores are pairwise distinct, so the random tie-break of groupby_max is irrelevant",
          "target-only databases (has_decoys=False): decoy peptides of the table are the mirrored target peptides, all "
          "target peptides have pairwise different residue compositions, so match_decoy has exactly one candidate",
          "lowercase letters: either terminal markers next to upper-case residues, or a table that is lowercase "
          "throughout",
          "protein_level_pipeline: level_columns start with the peptide column, as read_percolator builds them; "
          "Proteins with has_decoys=True only; data sets in which fewer than two pairs are won by either side (or fewer "
          "than six pairs have an entry) are redrawn, because mokapot cannot write a level without decoys and qvality "
          "needs a few scores (neither is the subject here); assign_confidence(do_rollup=False, proteins=...) raises "
          "on the current tree (no peptide level to infer proteins from): such calls are counted in the bound text and "
          "not compared; the posterior_error_prob column is not checked"])
