"""C15 bounded stand-in: mokapot.picked_protein.picked_protein (+ strip_peptides, group_with_decoys,
group_without_decoys, utils.groupby_max) on small peptide tables.

Oracle, from the statement: for every target/decoy protein-group pair take the rows of the peptide table whose
unmodified sequence (known by construction: the decorated peptide strings are built here from plain sequences) is a
UNIQUE peptide of the target group or of its decoy counterpart; if there is at least one, the result holds exactly
one entry for the pair: group name, peptide string, plain sequence, score and target flag of the best-scoring such
row. Rows of peptides shared between groups contribute nothing, so the result holds nothing else.
All scores are distinct. Protein q-values (confidence.py, C01 formula) are not part of this module.
"""
import itertools
import json
import logging
import multiprocessing
import random
import warnings

import numpy as np
import pandas as pd

from harness.common import Check, args, emit
from harness.datasets import scratch

logging.disable(logging.CRITICAL)
warnings.filterwarnings("ignore")

PEPS = ["ACDEFGK", "HILMNPK", "QSTVWYK", "GASPVTR", "DEHIFYR"]       # pairwise different compositions
PREFIX = "decoy_"
N_STYLES = 10


def mirror(pep):
    return pep[0] + pep[1:-1][::-1] + pep[-1]


def decorate(plain, style):
    """the same peptide in the notations search engines use; the unmodified sequence stays `plain`"""
    s = style % N_STYLES
    if s == 0:
        return plain
    if s == 1:
        return plain[:2] + "[+15.99]" + plain[2:]
    if s == 2:
        return plain[:3] + "(ox)" + plain[3:]
    if s == 3:
        return "K." + plain + ".A"
    if s == 4:
        return "-." + plain + ".-"
    if s == 5:
        return "R." + plain[0] + "[+42.01]" + plain[1:4] + "(ph)" + plain[4:] + ".A"
    if s == 6:
        return "n" + plain + "c"
    if s == 7:
        return "n[+42.01]" + plain
    if s == 8:
        return "".join(c + "[+15.99]" for c in plain[:3]) + plain[3:]
    return "K." + plain[:-1] + "(+15.99)" + plain[-1] + ".-"


def group_name(j, side):
    """odd groups have two members, to exercise the first-member pairing"""
    members = ["p%d" % j] + (["q%d" % j] if j % 2 else [])
    if side == "D":
        members = [PREFIX + m for m in members]
    return ", ".join(members)


def build_proteins(n_groups, assign, has_decoys):
    """assign: per peptide the tuple of groups that contain it -> a Proteins object as read_fasta would build it"""
    from mokapot.proteins import Proteins
    peptide_map, shared = {}, {}
    for i, gs in enumerate(assign):
        for side in ("T", "D") if has_decoys else ("T",):
            pep = PEPS[i] if side == "T" else mirror(PEPS[i])
            if len(gs) == 1:
                peptide_map[pep] = group_name(gs[0], side)
            else:
                shared[pep] = "; ".join(group_name(j, side) for j in gs)
    protein_map = {}
    for j in range(n_groups):
        for m in group_name(j, "T").split(", "):
            protein_map[m] = PREFIX + m
    return Proteins(decoy_prefix=PREFIX, peptide_map=peptide_map, protein_map=protein_map, shared_peptides=shared,
                    has_decoys=has_decoys)


def build_table(n_groups, assign, winners, counter, rng):
    """rows: dicts(text, plain, target, groups, score). Winners: per group 'T' or 'D'."""
    lower = counter % 7 == 3
    rows = []
    for i, gs in enumerate(assign):
        for side in ("T", "D"):
            if counter % 2 and rng.random() < 0.3:
                continue                                                   # peptide not retained on this side
            plain = PEPS[i] if side == "T" else mirror(PEPS[i])
            forms = [counter + 3 * i + (side == "D")]
            if counter % 4 == 1 and i == 0:
                forms.append(forms[0] + 1)                                 # the same peptide in a second notation
            for st in forms:
                text = (("k." + plain.lower() + ".a") if st % 2 else plain.lower()) if lower else decorate(plain, st)
                rows.append({"text": text, "plain": plain, "target": side == "T", "groups": gs})
    vals = list(range(len(rows)))
    rng.shuffle(vals)
    if counter % 3 == 0:                                                   # shared peptides score best of all
        order = sorted(range(len(rows)), key=lambda r: len(rows[r]["groups"]) < 2)
        vals_sorted = sorted(vals, reverse=True)
        for r, v in zip(order, vals_sorted):
            rows[r]["score"] = 10 + 0.5 * v
    else:
        for r, v in zip(rows, vals):
            r["score"] = 10 + 0.5 * v
    for j in range(n_groups):
        mine = [r for r in rows if r["groups"] == (j,)]
        t = [r for r in mine if r["target"]]
        dd = [r for r in mine if not r["target"]]
        if t and dd:
            bt = max(t, key=lambda r: r["score"])
            bd = max(dd, key=lambda r: r["score"])
            if (bt["score"] > bd["score"]) != (winners[j] == "T"):
                bt["score"], bd["score"] = bd["score"], bt["score"]
    rng.shuffle(rows)
    return rows


def expected_entries(n_groups, rows):
    """pair index -> (group name, peptide text, plain sequence, score, target flag)"""
    exp = {}
    for j in range(n_groups):
        mine = [r for r in rows if r["groups"] == (j,)]
        if mine:
            b = max(mine, key=lambda r: r["score"])
            exp[j] = (group_name(j, "T" if b["target"] else "D"), b["text"], b["plain"], b["score"], b["target"])
    return exp


def compare(out, exp, pair_of_group, rows, has_decoys, layout=None):
    """-> list of (case, what). out: DataFrame returned by picked_protein; pair_of_group: group key -> pair id"""
    problems = []
    want_cols = ["mokapot protein group", "best peptide", "stripped sequence", "score", "Label"]
    if list(out.columns) != want_cols:
        return [("result-columns", "%s" % list(out.columns))]
    shared_texts = {r["text"] for r in rows if len(r["groups"]) > 1}
    seen = {}
    for rec in out.itertuples(index=False):
        g, text, stripped, score, target = rec
        if not isinstance(g, str):
            problems.append(("nan-group-entry-from-unmatched-decoy" if not has_decoys and not target
                             else "nan-group-entry", "entry without protein group: %s" % (tuple(rec),)))
            continue
        key = pair_of_group(g)
        if key is None:
            problems.append(("unknown-group", "entry %s" % (tuple(rec),)))
            continue
        seen.setdefault(key, []).append((g, text, stripped, float(score), bool(target)))
    for key, got in seen.items():
        if len(got) > 1:
            problems.append(("pair-split-when-decoy-members-ordered-differently" if layout == "decoys_reversed"
                             else "two-entries-for-one-pair", "entries %s" % got))
            continue
        if key not in exp:
            problems.append(("entry-from-shared-peptide" if got[0][1] in shared_texts else "unexpected-entry",
                             "entry %s for a pair without retained unique peptide" % (got[0],)))
            continue
        e = exp[key]
        g = got[0]
        if g[4] != e[4] or _members(g[0]) != _members(e[0]):
            problems.append(("wrong-side-wins", "got %s expected %s" % (g, e)))
        elif g[1] != e[1]:
            problems.append(("entry-from-shared-peptide" if g[1] in shared_texts else "wrong-best-peptide",
                             "got %s expected %s" % (g, e)))
        elif g[2] != e[2]:
            problems.append(("wrong-stripped-sequence", "got %s expected %s" % (g, e)))
        elif g[3] != e[3]:
            problems.append(("wrong-score", "got %s expected %s" % (g, e)))
    for key in exp:
        if key not in seen:
            problems.append(("missing-entry", "no entry for the pair of %r, expected %s" % (exp[key][0], exp[key],)))
    return problems


def _raise_case(e, rows):
    """an exception instead of a result; the class of input is named when no row belongs to a unique peptide"""
    no_unique = not any(len(r["groups"]) == 1 for r in rows)
    return ("raises-when-no-unique-peptide-retained" if no_unique else "picked_protein-raises",
            "%s: %s (%d rows, %d of unique peptides)" % (type(e).__name__, str(e)[:200], len(rows),
                                                         sum(len(r["groups"]) == 1 for r in rows)))


def _members(g):
    return frozenset(g.split(", "))


def frame(rows):
    return pd.DataFrame({"Label": [bool(r["target"]) for r in rows], "extra": range(len(rows)),
                         "Peptide": [r["text"] for r in rows], "score": [float(r["score"]) for r in rows]})


def run_direct(n_groups, assign, winners, counter, has_decoys, seed):
    from mokapot.picked_protein import picked_protein
    rng = random.Random("%s-%s" % (seed, counter))
    rows = build_table(n_groups, assign, winners, counter, rng)
    if not rows:
        return None, rows
    prot = build_proteins(n_groups, assign, has_decoys)
    exp = expected_entries(n_groups, rows)
    names = {}
    for j in range(n_groups):
        names[group_name(j, "T")] = j
        names[group_name(j, "D")] = j
    np.random.seed(seed + counter)                          # match_decoy samples with the global RNG
    try:
        out = picked_protein(frame(rows), "Label", "Peptide", "score", prot,
                             (seed + counter) if counter % 2 else np.random.default_rng(seed + counter))
    except Exception as e:                                   # noqa: BLE001
        return [_raise_case(e, rows)], rows
    return compare(out, exp, names.get, rows, has_decoys), rows


def structures(max_groups, max_peps):
    """(n_groups, assign): every peptide lies in a non-empty set of groups; multisets, i.e. up to renaming peptides"""
    out = []
    for g in range(1, max_groups + 1):
        subsets = [c for n in range(1, g + 1) for c in itertools.combinations(range(g), n)]
        for k in range(1, max_peps + 1):
            for assign in itertools.combinations_with_replacement(subsets, k):
                out.append((g, assign))
    return out


def _work(job):
    structs, has_decoys, seed, base = job
    evals = 0
    keys = []
    viols = []
    for si, (g, assign) in enumerate(structs):
        # the winner only matters for groups that own a unique peptide; the others are fixed to "T"
        owners = [j for j in range(g) if (j,) in assign]
        for wi, choice in enumerate(itertools.product("TD", repeat=len(owners))):
            winners = tuple(choice[owners.index(j)] if j in owners else "T" for j in range(g))
            counter = base + si * 16 + wi
            problems, rows = run_direct(g, assign, winners, counter, has_decoys, seed)
            if problems is None:
                continue
            evals += 1
            uniq_groups = {r["groups"] for r in rows if len(r["groups"]) == 1}
            nontrivial = bool(uniq_groups) and (any(len(r["groups"]) > 1 for r in rows) or
                                                any(sum(1 for r in rows if r["groups"] == u) > 1
                                                    for u in uniq_groups))
            keys.append(((g, assign, winners, has_decoys), nontrivial))
            for case, what in problems:
                if sum(1 for v in viols if v[0] == case) < 3:
                    viols.append((case, what, {"n_groups": g, "assign": assign, "winners": "".join(winners),
                                               "counter": counter, "has_decoys": has_decoys, "seed": seed,
                                               "n_rows": len(rows)}))
    return evals, keys, viols


def _direct(tier, seed, has_decoys):
    max_g, max_k = (3, 5) if tier == "quick" else (4, 5)
    structs = structures(max_g, max_k)
    name = "picked_with_decoys" if has_decoys else "picked_without_decoys"
    ck = Check(name, "mokapot.picked_protein.picked_protein, strip_peptides, %s, mokapot.utils.groupby_max"
               % ("group_with_decoys" if has_decoys else "group_without_decoys, mokapot.peptides.match_decoy"),
               "exhaustive: all %d assignments of 1..%d peptides to non-empty subsets of 1..%d protein groups (up to "
               "renaming peptides; unique and shared peptides, groups without unique peptide) x all target/decoy "
               "winners of the groups owning a unique peptide; Proteins object built directly with has_decoys=%s; per case a table with the "
               "target and the decoy form of every peptide (every other case drops rows with p=0.3, seed %d), %d "
               "modification/flank/lowercase notations cycled, every 7th table all lowercase, every 4th holds a "
               "peptide in two notations, every 3rd gives the shared peptides the highest scores; distinct scores"
               % (len(structs), max_k, max_g, has_decoys, seed, N_STYLES),
               "result rows == one entry per pair with a retained unique peptide, equal to the best-scoring unique row "
               "(group, peptide text, plain sequence, score, target flag); non-trivial = a shared peptide is present "
               "or some group pair has >= 2 unique rows to choose from")
    import mokapot.picked_protein                       # noqa: F401  (imported once, before the workers fork)
    n_chunks = 32
    jobs = [(structs[i::n_chunks], has_decoys, seed, i * 1000003) for i in range(n_chunks)]
    with multiprocessing.Pool(min(16, multiprocessing.cpu_count())) as pool:
        parts = pool.map(_work, jobs)
    for evals, keys, viols in parts:
        for k, nt in keys:
            ck.case(k, nontrivial=nt)
    allv = sorted((v for p in parts for v in p[2]), key=lambda v: (v[2]["n_rows"], v[2]["n_groups"],
                                                                    len(v[2]["assign"]), json.dumps(v[2])))
    _feed(ck, allv)
    return ck


def _feed(ck, viols):
    seen = set()
    rest = []
    for v in viols:
        if v[0] not in seen:
            seen.add(v[0])
            ck.violation(*v)
        else:
            rest.append(v)
    for v in rest:
        ck.violation(*v)


def check_with_decoys(tier, seed):
    return _direct(tier, seed, True)


def check_without_decoys(tier, seed):
    return _direct(tier, seed, False)


# ------------------------------------------------------------------ Proteins built by read_fasta from a tiny FASTA
LAYOUTS = ["concat", "decoys_reversed", "none"]


def fasta_case(combo, n_pep, layout, counter, seed, d):
    """combo: per target protein a bit mask of its peptides. -> (problems or None, description)"""
    from mokapot.parsers.fasta import read_fasta
    from mokapot.picked_protein import picked_protein
    sets = [frozenset(PEPS[i] for i in range(n_pep) if m >> i & 1) for m in combo]
    targets = [("p%d" % i, "".join(PEPS[k] for k in range(n_pep) if m >> k & 1)) for i, m in enumerate(combo)]
    decoys = [(PREFIX + n, "".join(mirror(s[k:k + 7]) for k in range(0, len(s), 7))) for n, s in targets]
    records = targets + {"concat": decoys, "decoys_reversed": decoys[::-1], "none": []}[layout]
    path = str(d / "db.fasta")
    with open(path, "w") as f:
        f.write("".join(">%s\n%s\n" % r for r in records))
    prot = read_fasta(path, missed_cleavages=0)
    has_decoys = layout != "none"
    # the grouping demanded by C16: one group per maximal peptide set, members = the proteins contained in it
    distinct = {s for s in sets if s}
    maximal = sorted((s for s in distinct if not any(s < t for t in distinct)), key=sorted)
    count = {}
    for s in maximal:
        for pep in s:
            count[pep] = count.get(pep, 0) + 1
    rng = random.Random("%s-%s" % (seed, counter))
    rows = []
    for i in range(n_pep):
        if PEPS[i] not in count:
            continue
        gs = tuple(j for j, s in enumerate(maximal) if PEPS[i] in s)
        for side in ("T", "D"):
            if counter % 2 and rng.random() < 0.25:
                continue
            plain = PEPS[i] if side == "T" else mirror(PEPS[i])
            rows.append({"text": decorate(plain, counter + 3 * i + (side == "D")), "plain": plain,
                         "target": side == "T", "groups": gs})
    if not any(r["target"] for r in rows):
        return None, records
    vals = list(range(len(rows)))
    rng.shuffle(vals)
    for r, v in zip(rows, vals):
        r["score"] = 10 + 0.5 * v
    rng.shuffle(rows)
    exp = {}
    for j, s in enumerate(maximal):
        mine = [r for r in rows if r["groups"] == (j,)]
        if mine:
            b = max(mine, key=lambda r: r["score"])
            members = ["p%d" % i for i, t in enumerate(sets) if t and t <= s]
            exp[j] = (", ".join(m if b["target"] else PREFIX + m for m in members), b["text"], b["plain"], b["score"],
                      b["target"])

    def pair_of_group(g):
        ms = [m[len(PREFIX):] if m.startswith(PREFIX) else m for m in g.split(", ")]
        own = [sets[int(m[1:])] for m in ms if m[1:].isdigit() and int(m[1:]) < len(sets)]
        if len(own) != len(ms) or not own:
            return None
        top = max(own, key=len)
        return maximal.index(top) if top in maximal else None
    np.random.seed(seed + counter)
    try:
        out = picked_protein(frame(rows), "Label", "Peptide", "score", prot, seed + counter)
    except Exception as e:                                   # noqa: BLE001
        return [_raise_case(e, rows)], records
    return compare(out, exp, pair_of_group, rows, has_decoys, layout), records


def check_fasta(tier, seed):
    from harness.c16 import structures as fasta_structures
    max_prot, n_pep = (3, 3) if tier == "quick" else (4, 4)
    structs = fasta_structures(max_prot, n_pep)
    ck = Check("picked_from_fasta", "mokapot.read_fasta + mokapot.picked_protein.picked_protein",
               "exhaustive: all %d incidence structures of 1..%d proteins x %d peptides (as in C16) written as FASTA "
               "with mirrored decoys in layout %s, read by the real read_fasta(missed_cleavages=0); one random table "
               "per case (seed %d; target and decoy form of every peptide, every other case drops rows with p=0.25), "
               "notations cycled" % (len(structs), max_prot, n_pep, LAYOUTS, seed),
               "as picked_with_decoys, the protein-group pairs being the maximal peptide sets of the structure and "
               "their mirrored decoy counterparts (groups compared as member sets); non-trivial = two proteins share a "
               "peptide or have equal/nested peptide sets")
    viols = []
    with scratch("c15_") as d:
        counter = 0
        for combo in structs:
            sets = [frozenset(i for i in range(n_pep) if m >> i & 1) for m in combo]
            ne = [s for s in sets if s]
            nontrivial = any(a & b for i, a in enumerate(ne) for b in ne[i + 1:])
            for layout in LAYOUTS:
                counter += 1
                problems, records = fasta_case(combo, n_pep, layout, counter, seed, d)
                if problems is None:
                    continue
                ck.case((combo, layout), nontrivial=nontrivial)
                for case, what in problems:
                    viols.append((case, what, {"structure": combo, "n_pep": n_pep, "layout": layout,
                                               "counter": counter, "seed": seed, "records": records}))
    _feed(ck, sorted(viols, key=lambda v: (len(v[2]["records"]), sum(len(r[1]) for r in v[2]["records"]))))
    return ck


# ------------------------------------------------------------------ strip_peptides alone
def check_strip(tier, seed):
    from mokapot.picked_protein import strip_peptides
    ck = Check("strip_peptides", "mokapot.picked_protein.strip_peptides",
               "exhaustive: %d plain peptides (and their mirrored forms) x %d notations, as one mixed Series, as one "
               "Series per notation, and two all-lowercase Series (with and without flanking residues)"
               % (len(PEPS), N_STYLES),
               "strip_peptides(decorated) == plain sequence; non-trivial = the notation adds something")
    plains = PEPS + [mirror(p) for p in PEPS]
    series = [("mixed", [(decorate(p, s), p) for p in plains for s in range(N_STYLES)])]
    for s in range(N_STYLES):
        series.append(("style%d" % s, [(decorate(p, s), p) for p in plains]))
    series.append(("lower", [(p.lower(), p) for p in plains]))
    series.append(("lower-flanked", [("k." + p.lower() + ".a", p) for p in plains]))
    for name, items in series:
        got = list(strip_peptides(pd.Series([t for t, _ in items])))
        for (text, plain), g in zip(items, got):
            ck.case((name, text), nontrivial=text != plain)
            if g != plain:
                ck.violation("strip-" + name, "%r stripped to %r, plain sequence %r"
                             % (text, g, plain), {"series": [t for t, _ in items], "plain": [p for _, p in items]})
    return ck


def REPLAY(check_name, violation):
    inp = violation["input"]
    if isinstance(inp, str):
        inp = json.loads(inp)
    if check_name in ("picked_with_decoys", "picked_without_decoys"):
        assign = tuple(tuple(a) for a in inp["assign"])
        problems, _ = run_direct(inp["n_groups"], assign, tuple(inp["winners"]), inp["counter"], inp["has_decoys"],
                                 inp["seed"])
        return {"violated": bool(problems), "detail": (problems or [])[:3]}
    if check_name == "picked_from_fasta":
        with scratch("c15_") as d:
            problems, _ = fasta_case(tuple(inp["structure"]), inp["n_pep"], inp["layout"], inp["counter"],
                                     inp["seed"], d)
        return {"violated": bool(problems), "detail": (problems or [])[:3]}
    if check_name == "strip_peptides":
        from mokapot.picked_protein import strip_peptides
        got = list(strip_peptides(pd.Series(inp["series"])))
        bad = [(t, g, p) for t, g, p in zip(inp["series"], got, inp["plain"]) if g != p]
        return {"violated": bool(bad), "detail": bad[:3]}
    return {"violated": None, "note": "no replay for %s" % check_name}


if __name__ == "__main__":
    a = args()
    np.random.seed(a.seed)
    emit([check_with_decoys(a.tier, a.seed), check_without_decoys(a.tier, a.seed), check_fasta(a.tier, a.seed),
          check_strip(a.tier, a.seed)],
         ["every peptide of the table is a unique or a shared peptide of the database (no unmappable peptides, so the "
          "'could not be mapped' error paths are not exercised); the table's target flag agrees with the side of the "
          "group that contains the peptide",
          "scores are pairwise distinct, so the random tie-break of groupby_max is irrelevant",
          "target-only databases (has_decoys=False): decoy peptides of the table are the mirrored target peptides, all "
          "target peptides have pairwise different residue compositions, so match_decoy has exactly one candidate",
          "lowercase letters: either terminal markers next to upper-case residues, or a table that is lowercase "
          "throughout",
          "protein q-values over these entries (confidence.py / C01) are outside this module"])
