"""C16 bounded stand-in: protein grouping of mokapot.read_fasta / _group_proteins.

Incidence structures (which protein yields which peptide) are realised as real FASTA entries: a protein is the
concatenation of 7-residue tryptic peptides (missed_cleavages=0, min_length=6 -> its digest is exactly that set), a
protein without peptides is "ACK" or an empty record. Decoy entries are written by hand (interior of every tryptic
piece reversed, name prefixed), so the decoy half mirrors the target half; grouping_decoys_sharing_peptides instead puts
the decoy prefix on arbitrary subsets of the entries of a structure, so that decoys and targets have peptides in common.

Oracle, from the statement (groups are only observable through the maps of the Proteins object: a group is a value of
peptide_map or a "; "-separated item of a shared_peptides value, its members are the ", "-separated names, its
peptide set P_g the peptides that name it):
  every protein that yields a peptide is a member of >= 1 group; P_g equals the peptide set of one member and contains
  those of all members; no P_g is contained in another group's; peptide_map's keys are exactly the peptides lying in
  exactly one maximal peptide set (computed independently from the incidence structure), shared_peptides' keys those
  in >= 2, listed with as many groups; protein_map pairs every target that yields a peptide with prefix+name;
  has_decoys tells whether such a decoy yields a peptide; the canonical (set-valued) form of all this is the same for
  every entry order and every hash seed.
"""
import hashlib
import itertools
import json
import logging
import os
import random
import subprocess
import sys
import warnings

from harness.common import Check, args, emit
from harness.datasets import scratch, VERIF

logging.disable(logging.CRITICAL)
warnings.filterwarnings("ignore")

PEPS = ["ACDEFGK", "HILMNPK", "QSTVWYK", "GASPVTR"]
POOL = PEPS + ["MCDLNWK", "DEHIFYR", "MLSTAGK", "NQVWCER"]          # for the random check (two start with M)
PREFIX = "decoy_"
MODES = ["none", "concat", "interleaved"]


def mirror(seq):
    """hand-made decoy: the interior of every tryptic piece reversed"""
    out = []
    start = 0
    for i, ch in enumerate(seq):
        if ch in "KR" or i == len(seq) - 1:
            piece = seq[start:i + 1]
            out.append(piece if len(piece) < 3 else piece[0] + piece[1:-1][::-1] + piece[-1])
            start = i + 1
    return "".join(out)


def entries_for(order, seqs, mode, prefix=PREFIX):
    """FASTA records for the target entry order `order` (indices into seqs)"""
    t = [("p%d" % i, seqs[i]) for i in order]
    dd = [(prefix + "p%d" % i, mirror(seqs[i])) for i in order]
    if mode == "none":
        return t
    if mode == "concat":
        return t + dd
    return [r for pair in zip(t, dd) for r in pair]


def write_fasta(path, records):
    with open(path, "w") as f:
        f.write("\n".join(">%s\n%s" % (n, s) if s else ">%s" % n for n, s in records) + "\n")


# ------------------------------------------------------------------ oracle
def observe(p):
    """canonical, order-free view of a Proteins object + the raw group table"""
    groups = {}
    for pep, g in p.peptide_map.items():
        groups.setdefault(g, set()).add(pep)
    shared = {}
    for pep, gs in p.shared_peptides.items():
        names = gs.split("; ")
        shared[pep] = names
        for g in names:
            groups.setdefault(g, set()).add(pep)
    members = {g: g.split(", ") for g in groups}
    canon = (
        sorted((sorted(members[g]), sorted(ps)) for g, ps in groups.items()),
        sorted((pep, sorted(members[g])) for pep, g in p.peptide_map.items()),
        sorted((pep, sorted(sorted(members[g]) for g in names)) for pep, names in shared.items()),
        sorted(p.protein_map.items()), bool(p.has_decoys))
    return groups, members, shared, canon


def contract_problems(p, prot_peps, prefix):
    """prot_peps: name -> frozenset of peptides, for every protein yielding >= 1 peptide. Returns (problems, canon)"""
    groups, members, shared, canon = observe(p)
    out = []
    both = set(p.peptide_map) & set(p.shared_peptides)
    if both:
        out.append(("peptide-both-unique-and-shared", "%s" % sorted(both)))
    for g, ps in groups.items():
        ms = members[g]
        unknown = [m for m in ms if m not in prot_peps]
        if unknown or len(set(ms)) != len(ms):
            out.append(("group-member-unknown-or-repeated", "group %r" % g))
            continue
        if not any(prot_peps[m] == ps for m in ms):
            out.append(("group-set-not-a-members-set", "group %r has peptides %s, members have %s"
                        % (g, sorted(ps), [sorted(prot_peps[m]) for m in ms])))
        if any(not prot_peps[m] <= ps for m in ms):
            out.append(("member-peptides-outside-group", "group %r has peptides %s, members have %s"
                        % (g, sorted(ps), [sorted(prot_peps[m]) for m in ms])))
        for g2, ps2 in groups.items():
            if g2 != g and ps <= ps2:
                out.append(("group-contained-in-another", "group %r %s within group %r %s"
                            % (g, sorted(ps), g2, sorted(ps2))))
                break
    in_group = {m for ms in members.values() for m in ms}
    lost = sorted(set(prot_peps) - in_group)
    if lost:
        out.append(("protein-in-no-group", "%s" % lost))
    # unique / shared split against the independently computed maximal peptide sets
    sets = set(prot_peps.values())
    maximal = [s for s in sets if not any(s < t for t in sets)]
    count = {}
    for s in maximal:
        for pep in s:
            count[pep] = count.get(pep, 0) + 1
    exp_unique = {pep for pep, c in count.items() if c == 1}
    exp_shared = {pep for pep, c in count.items() if c >= 2}
    if set(p.peptide_map) != exp_unique:
        out.append(("unique-peptides-wrong", "peptide_map keys %s, peptides in exactly one group %s"
                    % (sorted(p.peptide_map), sorted(exp_unique))))
    if set(p.shared_peptides) != exp_shared:
        out.append(("shared-peptides-wrong", "shared_peptides keys %s, peptides in >= 2 groups %s"
                    % (sorted(p.shared_peptides), sorted(exp_shared))))
    for pep, names in shared.items():
        if pep in count and (len(names) != count[pep] or len(set(names)) != len(names)):
            out.append(("shared-peptide-group-list-wrong", "%r lists %s, lies in %d groups"
                        % (pep, names, count[pep])))
    targets = [m for m in prot_peps if not m.startswith(prefix)]
    exp_map = {t: prefix + t for t in targets}
    if dict(p.protein_map) != exp_map:
        out.append(("decoy-pairing-wrong", "protein_map %s expected %s" % (dict(p.protein_map), exp_map)))
    exp_has = any(prefix + t in prot_peps for t in targets)
    if bool(p.has_decoys) != exp_has:
        out.append(("has-decoys-flag-wrong", "has_decoys %s expected %s" % (p.has_decoys, exp_has)))
    return out, canon


def run_one(records, prot_peps, d, prefix=PREFIX, **kw):
    from mokapot.parsers.fasta import read_fasta
    path = str(d / "db.fasta")
    write_fasta(path, records)
    p = read_fasta(path, decoy_prefix=prefix, **kw)
    return contract_problems(p, prot_peps, prefix)


# ------------------------------------------------------------------ exhaustive structures
def structures(max_prot, n_pep):
    """multisets of 1..max_prot subsets (bit masks) of n_pep peptides = incidence structures up to renaming proteins;
    structures in which no protein has a peptide are left out (read_fasta rejects a database without targets)"""
    out = []
    for n in range(1, max_prot + 1):
        for combo in itertools.combinations_with_replacement(range(2 ** n_pep), n):
            if any(combo):
                out.append(combo)
    return out


def seq_of(mask, n_pep, alt):
    s = "".join(PEPS[i] for i in range(n_pep) if mask >> i & 1)
    return s if s else ("ACK" if alt else "")


def run_structures(structs, n_pep, d):
    """-> dict(evaluations, keys=[(struct, nontrivial)], violations=[(case, what, input)], canon={struct: md5})"""
    res = {"evaluations": 0, "keys": [], "violations": [], "canon": {}}
    for si, combo in enumerate(structs):
        seqs = [seq_of(m, n_pep, (si + j) % 2) for j, m in enumerate(combo)]
        sets = [frozenset(PEPS[i] for i in range(n_pep) if m >> i & 1) for m in combo]
        distinct = {s for s in sets if s}
        # non-trivial: some peptide set is contained in (or equal to) another protein's, or two proteins overlap
        nontrivial = len(combo) >= 2 and (len([s for s in sets if s]) > len(distinct) or
                                          any(a & b for a in distinct for b in distinct if a != b))
        res["keys"].append((combo, nontrivial))
        canon_by_mode = {}
        for mode in MODES:
            prot_peps = {"p%d" % i: s for i, s in enumerate(sets) if s}
            if mode != "none":
                prot_peps.update({PREFIX + "p%d" % i: frozenset(mirror(x) for x in s)
                                  for i, s in enumerate(sets) if s})
            first = None
            for order in itertools.permutations(range(len(combo))):
                records = entries_for(order, seqs, mode)
                inp = {"records": records, "missed_cleavages": 0, "prefix": PREFIX}
                res["evaluations"] += 1
                try:
                    problems, canon = run_one(records, prot_peps, d, missed_cleavages=0)
                except Exception as e:                                           # noqa: BLE001
                    res["violations"].append(("read_fasta-raises", "%s: %s" % (type(e).__name__, e), inp))
                    continue
                for case, what in problems:
                    res["violations"].append((case, what, inp))
                if first is None:
                    first = (canon, records)
                elif canon != first[0]:
                    res["violations"].append(("grouping-depends-on-entry-order",
                                              "order %s gives %s, order %s gives %s"
                                              % ([r[0] for r in first[1]], first[0][0], [r[0] for r in records],
                                                 canon[0]), {"records": records, "records_b": first[1],
                                                             "missed_cleavages": 0, "prefix": PREFIX}))
            canon_by_mode[mode] = first[0] if first else None
        res["canon"][json.dumps(combo)] = hashlib.md5(repr(canon_by_mode).encode()).hexdigest()
    return res


def _sub_main():
    """entry point of the hash-seed subprocesses (thorough tier): job description on stdin, result on stdout"""
    job = json.load(sys.stdin)
    structs = [tuple(c) for c in job["structs"]]
    with scratch("c16_") as d:
        res = run_structures(structs, job["n_pep"], d)
    res["keys"] = [[list(k), nt] for k, nt in res["keys"]]
    res["violations"] = res["violations"][:50]
    json.dump(res, sys.stdout)


def _spawn(structs, n_pep, hash_seed):
    env = dict(os.environ, PYTHONHASHSEED=str(hash_seed), PYTHONPATH=":".join([VERIF, "/repo"] + [x for x in os.environ.get("PYTHONPATH", "").split(":") if x]))
    p = subprocess.Popen(["/venv/bin/python", "-c", "import harness.c16 as m; m._sub_main()"], cwd=VERIF, env=env,
                         stdin=subprocess.PIPE, stdout=subprocess.PIPE, stderr=subprocess.DEVNULL, text=True)
    p.stdin.write(json.dumps({"structs": structs, "n_pep": n_pep}))
    p.stdin.close()
    return p


def check_exhaustive(tier, seed):
    max_prot, n_pep = (3, 4) if tier == "quick" else (4, 4)
    structs = structures(max_prot, n_pep)
    hash_seeds = [] if tier == "quick" else [seed + 1, seed + 2]
    ck = Check("grouping_exhaustive", "mokapot.parsers.fasta.read_fasta, _group_proteins",
               "exhaustive: all %d incidence structures of 1..%d target proteins x %d peptides (multisets of peptide "
               "subsets, i.e. up to renaming proteins; proteins without peptides included) x all entry orders of the "
               "targets x decoy layout in %s (mirrored hand-made decoys), missed_cleavages=0, min_length=6; %s"
               % (len(structs), max_prot, n_pep, MODES,
                  "in-process under PYTHONHASHSEED=%s" % os.environ.get("PYTHONHASHSEED", "random")
                  if tier == "quick" else "each in subprocesses under PYTHONHASHSEED in %s" % hash_seeds),
               "statement clauses evaluated on peptide_map / shared_peptides / protein_map / has_decoys against the "
               "maximal peptide sets of the incidence structure; canonical result equal for all entry orders%s; a case "
               "is one structure (`evaluations` counts read_fasta calls); non-trivial = >= 2 proteins of which two "
               "share a peptide or have equal/nested peptide sets"
               % ("" if tier == "quick" else " and both hash seeds"))
    if tier == "quick":
        with scratch("c16_") as d:
            results = [run_structures(structs, n_pep, d)]
    else:
        n_slices = 8
        procs = [(h, _spawn(structs[i::n_slices], n_pep, h)) for h in hash_seeds for i in range(n_slices)]
        results = []
        canon = {}
        for h, p in procs:
            out = p.stdout.read()
            p.wait()
            if p.returncode != 0 or not out:
                ck.violation("subprocess-failed", "hash seed %s: exit %s" % (h, p.returncode), {"hash_seed": h})
                continue
            r = json.loads(out)
            r["keys"] = [(tuple(k), nt) for k, nt in r["keys"]]
            if h != hash_seeds[0]:
                r["keys"] = []                                        # count every structure once
            results.append(r)
            for k, v in r["canon"].items():
                if canon.setdefault(k, (h, v))[1] != v:
                    combo = json.loads(k)
                    ck.violation("grouping-depends-on-hash-seed", "structure %s differs between PYTHONHASHSEED %s "
                                 "and %s" % (combo, canon[k][0], h),
                                 {"structure": combo, "n_pep": n_pep, "hash_seeds": [canon[k][0], h]})
    for r in results:
        for k, nt in r["keys"]:
            ck.case(k, nontrivial=nt)
    ck.evaluations = sum(r["evaluations"] for r in results)
    for r in results:
        _feed(ck, r["violations"])
    return ck


def _feed(ck, viols):
    viols = sorted(viols, key=lambda v: (len(v[2].get("records", [])), json.dumps(v[2], sort_keys=True)))
    seen = set()
    rest = []
    for v in viols:
        if v[0] not in seen:
            seen.add(v[0])
            ck.violation(*v)
        else:
            rest.append(v)
    for v in rest:
        ck.violation(*v)


# ------------------------------------------------------------------ random structures, other digest parameters
def check_random(tier, seed):
    from harness.c17 import oracle as digest_oracle
    n = 300 if tier == "quick" else 1500
    rng = random.Random(seed)
    ck = Check("grouping_random", "mokapot.parsers.fasta.read_fasta, _group_proteins",
               "random: %d databases (seed %d) of 3..8 target proteins, each an ordered concatenation of 1..4 of 8 "
               "seven-residue tryptic peptides, x 3 random entry orders x decoy layout in %s, missed_cleavages 0..2, "
               "clip_nterm_methionine on/off, min_length in {6,7,8}, prefix in {decoy_, rev_}"
               % (n, seed, MODES),
               "as grouping_exhaustive; each protein's peptide set comes from the independent digest oracle of "
               "harness.c17; non-trivial = two proteins share a peptide or have equal/nested peptide sets")
    with scratch("c16_") as d:
        for c in range(n):
            n_prot = rng.randint(3, 8)
            seqs = []
            for _ in range(n_prot):
                if seqs and rng.random() < 0.35:           # sub-/super-sequence of an earlier protein: nested sets
                    base = seqs[rng.randrange(len(seqs))]
                    k = len(base) // 7
                    a = rng.randrange(k)
                    b = rng.randint(a + 1, k)
                    seqs.append(base[7 * a:7 * b])
                else:
                    seqs.append("".join(rng.sample(POOL, rng.randint(1, 4))))
            mc = rng.choice([0, 1, 2])
            clip = rng.random() < 0.5
            lo = rng.choice([6, 6, 7, 8])
            prefix = rng.choice(["decoy_", "rev_"])
            kw = dict(missed_cleavages=mc, clip_nterm_methionine=clip, min_length=lo)
            for mode in MODES:
                first = None
                orders = [tuple(range(n_prot))] + [tuple(rng.sample(range(n_prot), n_prot)) for _ in range(2)]
                for order in orders:
                    records = entries_for(order, seqs, mode, prefix)
                    prot_peps = {}
                    for name, s in records:
                        ps = frozenset(digest_oracle(s, "[KR]", mc, lo, 50, clip, False))
                        if ps:
                            prot_peps[name] = ps
                    if not any(not name.startswith(prefix) for name in prot_peps):
                        ck.case((c, mode, order), nontrivial=False)      # no target yields a peptide: rejected
                        continue
                    sets = list(prot_peps.values())
                    nontrivial = any(a & b for i, a in enumerate(sets) for b in sets[i + 1:])
                    ck.case((c, mode, order), nontrivial=nontrivial)
                    inp = dict(kw, records=records, prefix=prefix)
                    try:
                        problems, canon = run_one(records, prot_peps, d, prefix=prefix, **kw)
                    except Exception as e:                                       # noqa: BLE001
                        ck.violation("read_fasta-raises", "%s: %s" % (type(e).__name__, e), inp)
                        continue
                    for case, what in problems:
                        ck.violation(case, what, inp)
                    if first is None:
                        first = (canon, records)
                    elif canon != first[0]:
                        ck.violation("grouping-depends-on-entry-order", "orders %s and %s"
                                     % ([r[0] for r in first[1]], [r[0] for r in records]),
                                     dict(inp, records_b=first[1]))
    return ck


# ------------------------------------------------------------------ decoys for some targets only
def short_pieces(seq):
    """decoy candidate without peptide when missed_cleavages=0 and min_length>=6: every 7-residue tryptic piece of the
    mirrored sequence cut down to 5 residues"""
    m = mirror(seq)
    return "".join(m[i:i + 4] + m[i + 6] for i in range(0, len(m) - 6, 7)) if len(m) >= 7 else "ACK"


def one_long_piece(seq):
    """decoy candidate that is a single tryptic piece (inner K/R replaced): no peptide once it exceeds max_length"""
    m = mirror(seq)
    return "".join("A" if ch in "KR" else ch for ch in m[:-1]) + m[-1:]


DECOY_KINDS = {"mirror": mirror, "absent": None, "short-pieces": short_pieces, "tiny": lambda s: "ACK",
               "empty": lambda s: "", "one-long-piece": one_long_piece}


def partial_records(order, seqs, kinds, layout, prefix=PREFIX):
    """FASTA records for the target entry order `order`; kinds[i] names the decoy entry written for target i"""
    t = [("p%d" % i, seqs[i]) for i in order]
    dd = [None if kinds[i] == "absent" else (prefix + "p%d" % i, DECOY_KINDS[kinds[i]](seqs[i])) for i in order]
    if layout == "concat":
        return t + [r for r in dd if r is not None]
    return [r for pair in zip(t, dd) for r in pair if r is not None]


def digest_all(records, kw, digest_oracle):
    """name -> peptide set (independent digest oracle of harness.c17) of every record that yields a peptide"""
    prot_peps = {}
    for name, s in records:
        ps = frozenset(digest_oracle(s, "[KR]", kw.get("missed_cleavages", 2), kw.get("min_length", 6),
                                     kw.get("max_length", 50), kw.get("clip_nterm_methionine", False), False))
        if ps:
            prot_peps[name] = ps
    return prot_peps


def partial_problems(records, kw, prefix, d, digest_oracle):
    """-> (problems, canon, is_partial); problems is None when no target yields a peptide (rejected by design).
    is_partial: some peptide-yielding target has a peptide-yielding decoy and some other one has not."""
    from mokapot.parsers.fasta import read_fasta
    prot_peps = digest_all(records, kw, digest_oracle)
    targets = [n for n in prot_peps if not n.startswith(prefix)]
    without = [t for t in targets if prefix + t not in prot_peps]
    is_partial = bool(without) and len(without) < len(targets)
    if not targets:
        return None, None, False
    path = str(d / "db.fasta")
    write_fasta(path, records)
    try:
        p = read_fasta(path, decoy_prefix=prefix, **kw)
    except Exception as e:                                                       # noqa: BLE001
        return [("partial-decoys-read_fasta-raises", "%s: %s" % (type(e).__name__, e))], None, is_partial
    problems, canon = contract_problems(p, prot_peps, prefix)
    out = []
    for case, what in problems:
        if case == "decoy-pairing-wrong" and is_partial:
            # name the class: which of the targets that the statement wants paired are not paired as prefix+name
            wrong = [t for t in targets if p.protein_map.get(t) != prefix + t]
            extra = [k for k in p.protein_map if k not in targets]
            if wrong and not extra and all(t in without and t not in p.protein_map for t in wrong):
                case = "partial-decoys-target-without-decoy-unpaired"
            elif wrong and not extra and all(t not in without for t in wrong):
                case = "partial-decoys-target-with-decoy-mispaired"
            else:
                case = "partial-decoys-pairing-wrong"
        out.append((case, what))
    return out, canon, is_partial


def check_partial_decoys(tier, seed):
    from harness.c17 import oracle as digest_oracle
    n_pep = 2 if tier == "quick" else 3
    n_rand = 100 if tier == "quick" else 1500
    layouts = ["concat", "interleaved"]
    structs = [c for c in structures(3, n_pep) if sum(1 for m in c if m) >= 2]
    rng = random.Random(seed + 16)
    ck = Check("grouping_partial_decoys", "mokapot.parsers.fasta.read_fasta",
               "exhaustive: all %d incidence structures of 2..3 target proteins x %d peptides with >= 2 peptide-yielding "
               "targets x every assignment of {mirrored decoy, no decoy entry, decoy entry of 5-residue pieces (no "
               "peptide)} to the peptide-yielding targets with >= 1 mirrored and >= 1 not x %s, missed_cleavages=0, "
               "min_length=6; random: %d databases (seed %d) of 3..7 targets as in grouping_random, every target's decoy "
               "drawn from %s, x 2 entry orders x 2 layouts, missed_cleavages 0..2, min_length in {6,7,8}, max_length in "
               "{7,14,21,50}, clip_nterm_methionine on/off, prefix in {decoy_, rev_}; in-process under one hash seed"
               % (len(structs), n_pep,
                  "entry order in {as listed, reversed} x one decoy layout (alternating concat/interleaved)"
                  if tier == "quick" else "all entry orders x decoy layout in %s" % layouts,
                  n_rand, seed, sorted(DECOY_KINDS)),
               "as grouping_exhaustive (all statement clauses; in particular every peptide-yielding target is paired "
               "with prefix+name whether or not that decoy is in the file, and has_decoys tells whether a paired decoy "
               "yields a peptide); which decoys yield a peptide is decided by the independent digest oracle of "
               "harness.c17; canonical result equal for the entry orders tried; non-trivial = some peptide-yielding "
               "target has a peptide-yielding decoy and another one has none (missing entry or peptide-less entry)")

    viols = []

    def group(key, record_sets, kw, prefix, d):
        first = None
        for records in record_sets:
            inp = dict(kw, records=records, prefix=prefix)
            problems, canon, is_partial = partial_problems(records, kw, prefix, d, digest_oracle)
            ck.case((key, tuple(r[0] for r in records)), nontrivial=is_partial)
            for case, what in problems or []:
                viols.append((case, what, inp))
            if canon is None:
                continue
            if first is None:
                first = (canon, records)
            elif canon != first[0]:
                viols.append(("partial-decoys-grouping-depends-on-entry-order", "orders %s and %s"
                              % ([r[0] for r in first[1]], [r[0] for r in records]), dict(inp, records_b=first[1])))

    with scratch("c16_") as d:
        kw0 = dict(missed_cleavages=0)
        g = 0
        for combo in structs:
            seqs = [seq_of(m, n_pep, j % 2) for j, m in enumerate(combo)]
            yielding = [j for j, m in enumerate(combo) if m]
            for assign in itertools.product(["mirror", "absent", "short-pieces"], repeat=len(yielding)):
                if "mirror" not in assign or all(a == "mirror" for a in assign):
                    continue
                kinds = ["absent" if j % 2 else "tiny" for j in range(len(combo))]   # targets without peptides
                for j, a in zip(yielding, assign):
                    kinds[j] = a
                ident = tuple(range(len(combo)))
                orders = [ident, ident[::-1]] if tier == "quick" else list(itertools.permutations(ident))
                for layout in ([layouts[g % 2]] if tier == "quick" else layouts):
                    group(("x", combo, assign, layout),
                          [partial_records(o, seqs, kinds, layout) for o in orders], kw0, PREFIX, d)
                g += 1
        for c in range(n_rand):
            n_prot = rng.randint(3, 7)
            seqs = []
            for _ in range(n_prot):
                if seqs and rng.random() < 0.35:
                    base = seqs[rng.randrange(len(seqs))]
                    k = len(base) // 7
                    a = rng.randrange(k)
                    seqs.append(base[7 * a:7 * rng.randint(a + 1, k)])
                else:
                    seqs.append("".join(rng.sample(POOL, rng.randint(1, 4))))
            kw = dict(missed_cleavages=rng.choice([0, 1, 2]), clip_nterm_methionine=rng.random() < 0.5,
                      min_length=rng.choice([6, 6, 7, 8]), max_length=rng.choice([7, 14, 21, 50, 50]))
            prefix = rng.choice(["decoy_", "rev_"])
            kinds = [rng.choice(["mirror", "mirror", "absent", "short-pieces", "tiny", "empty", "one-long-piece"])
                     for _ in range(n_prot)]
            a, b = rng.sample(range(n_prot), 2)
            kinds[a] = "mirror"
            if all(k == "mirror" for k in kinds):
                kinds[b] = rng.choice(["absent", "tiny"])
            orders = [tuple(range(n_prot)), tuple(rng.sample(range(n_prot), n_prot))]
            for layout in layouts:
                group(("r", c, layout), [partial_records(o, seqs, kinds, layout, prefix) for o in orders],
                      kw, prefix, d)
    _feed(ck, viols)
    return ck


# ------------------------------------------------------------------ decoy-prefixed entries sharing peptides with targets
def cross_names(is_decoy, rot, prefix=PREFIX):
    """entry names: targets are p<i>; the k-th decoy-prefixed entry is named after a target (prefix + p<j>, rotating
    by rot) as long as unpaired targets are left, the others after no target entry at all (prefix + q<i>)"""
    t = [i for i, dflag in enumerate(is_decoy) if not dflag]
    names = {}
    k = 0
    for i, dflag in enumerate(is_decoy):
        if not dflag:
            names[i] = "p%d" % i
        elif k < len(t):
            names[i] = prefix + "p%d" % t[(k + rot) % len(t)]
            k += 1
        else:
            names[i] = prefix + "q%d" % i
    return [names[i] for i in range(len(is_decoy))]


def cross_nontrivial(prot_peps, prefix):
    """some decoy-prefixed entry shares a peptide with some target entry (overlap, containment or equality)"""
    return any(a & b for m, a in prot_peps.items() if m.startswith(prefix)
               for n, b in prot_peps.items() if not n.startswith(prefix))


def check_decoys_sharing_peptides(tier, seed):
    from harness.c17 import oracle as digest_oracle
    max_prot, n_pep = (3, 3) if tier == "quick" else (4, 4)
    n_rand = 150 if tier == "quick" else 1500
    structs = [c for c in structures(max_prot, n_pep) if len(c) >= 2]
    rng = random.Random(seed + 1609)
    ck = Check("grouping_decoys_sharing_peptides", "mokapot.parsers.fasta.read_fasta, _group_proteins",
               "exhaustive: all %d incidence structures of 2..%d FASTA entries x %d peptides (multisets of peptide "
               "subsets; entries without peptides included) x every assignment of the decoy prefix to a non-empty proper "
               "subset of the entries that leaves a peptide-yielding target (the decoy-prefixed entries carry the SAME "
               "peptides as the structure says, not mirrored ones, so a decoy's peptide set may be contained in / equal "
               "to / overlap a target's and vice versa) x %s, missed_cleavages=0, min_length=6; random: %d databases "
               "(seed %d) of 3..8 entries built as in grouping_random, each entry decoy-prefixed with probability 1/2 "
               "(>= 1 target, >= 1 decoy), x 2 entry orders, missed_cleavages 0..2, clip_nterm_methionine on/off, "
               "min_length in {6,7,8}, prefix in {decoy_, rev_}; in-process under one hash seed"
               % (len(structs), max_prot, n_pep,
                  "all entry orders" if tier == "quick" else "entry order in {as listed, reversed}", n_rand, seed),
               "as grouping_exhaustive: every statement clause over ALL peptide-yielding entries regardless of prefix "
               "(maximal peptide sets computed over targets and decoys together), targets paired with prefix+name, "
               "has_decoys tells whether such a decoy yields a peptide, canonical result equal for the entry orders "
               "tried; decoy-prefixed entries are named after a target entry or (when there are more decoys than "
               "targets) after none; non-trivial = a decoy-prefixed entry and a target entry have a peptide in common")
    viols = []

    def group(key, record_sets, prot_peps, kw, prefix, d):
        nt = cross_nontrivial(prot_peps, prefix)
        first = None
        for records in record_sets:
            ck.case((key, tuple(r[0] for r in records)), nontrivial=nt)
            inp = dict(kw, records=records, prefix=prefix)
            try:
                problems, canon = run_one(records, prot_peps, d, prefix=prefix, **kw)
            except Exception as e:                                               # noqa: BLE001
                viols.append(("decoys-sharing-peptides-read_fasta-raises", "%s: %s" % (type(e).__name__, e), inp))
                continue
            for case, what in problems:
                viols.append(("decoys-sharing-peptides-" + case, what, inp))
            if first is None:
                first = (canon, records)
            elif canon != first[0]:
                viols.append(("decoys-sharing-peptides-grouping-depends-on-entry-order", "orders %s and %s"
                              % ([r[0] for r in first[1]], [r[0] for r in records]), dict(inp, records_b=first[1])))

    with scratch("c16_") as d:
        kw0 = dict(missed_cleavages=0)
        for si, combo in enumerate(structs):
            n = len(combo)
            seqs = [seq_of(m, n_pep, (si + j) % 2) for j, m in enumerate(combo)]
            sets = [frozenset(PEPS[i] for i in range(n_pep) if m >> i & 1) for m in combo]
            ident = tuple(range(n))
            orders = list(itertools.permutations(ident)) if tier == "quick" else [ident, ident[::-1]]
            for bits in range(1, 2 ** n - 1):
                is_decoy = [bool(bits >> i & 1) for i in range(n)]
                if not any(sets[i] for i in range(n) if not is_decoy[i]):
                    continue                                  # no target yields a peptide: rejected by design
                names = cross_names(is_decoy, si)
                prot_peps = {names[i]: sets[i] for i in range(n) if sets[i]}
                group(("x", combo, bits), [[(names[i], seqs[i]) for i in o] for o in orders], prot_peps, kw0, PREFIX, d)
        for c in range(n_rand):
            n = rng.randint(3, 8)
            seqs = []
            for _ in range(n):
                if seqs and rng.random() < 0.35:               # sub-sequence of an earlier entry: nested sets
                    base = seqs[rng.randrange(len(seqs))]
                    k = len(base) // 7
                    a = rng.randrange(k)
                    seqs.append(base[7 * a:7 * rng.randint(a + 1, k)])
                else:
                    seqs.append("".join(rng.sample(POOL, rng.randint(1, 4))))
            kw = dict(missed_cleavages=rng.choice([0, 1, 2]), clip_nterm_methionine=rng.random() < 0.5,
                      min_length=rng.choice([6, 6, 7, 8]))
            prefix = rng.choice(["decoy_", "rev_"])
            is_decoy = [rng.random() < 0.5 for _ in range(n)]
            a, b = rng.sample(range(n), 2)
            is_decoy[a], is_decoy[b] = False, True
            names = cross_names(is_decoy, rng.randrange(n), prefix)
            records0 = list(zip(names, seqs))
            prot_peps = digest_all(records0, kw, digest_oracle)
            if not any(not m.startswith(prefix) for m in prot_peps):
                continue                                      # no target yields a peptide: rejected by design
            orders = [tuple(range(n)), tuple(rng.sample(range(n), n))]
            group(("r", c), [[records0[i] for i in o] for o in orders], prot_peps, kw, prefix, d)
    _feed(ck, viols)
    return ck


def REPLAY(check_name, violation):
    from harness.c17 import oracle as digest_oracle
    inp = violation["input"]
    if isinstance(inp, str):
        inp = json.loads(inp)
    if "records" not in inp:                      # hash-seed comparison: the structure under both hash seeds
        canon = []
        for h in inp["hash_seeds"]:
            p = _spawn([inp["structure"]], inp["n_pep"], h)
            out = json.loads(p.stdout.read())
            p.wait()
            if out["violations"]:
                return {"violated": True, "detail": out["violations"][:2]}
            canon.append(out["canon"])
        return {"violated": canon[0] != canon[1], "detail": canon}
    kw = {k: inp[k] for k in ("missed_cleavages", "clip_nterm_methionine", "min_length", "max_length") if k in inp}

    def one(records):
        records = [tuple(r) for r in records]
        with scratch("c16_") as d:
            if check_name == "grouping_partial_decoys":
                problems, canon, _ = partial_problems(records, kw, inp["prefix"], d, digest_oracle)
                return problems or [], canon
            return run_one(records, digest_all(records, kw, digest_oracle), d, prefix=inp["prefix"], **kw)
    try:
        problems, canon = one(inp["records"])
        if "records_b" in inp:
            problems_b, canon_b = one(inp["records_b"])
            if canon != canon_b:
                problems = problems + [("grouping-depends-on-entry-order", "")]
    except Exception as e:                                                       # noqa: BLE001
        return {"violated": True, "detail": "%s: %s" % (type(e).__name__, e)}
    return {"violated": bool(problems), "detail": problems[:3]}


if __name__ == "__main__":
    if "PYTHONHASHSEED" not in os.environ:
        # string hashing drives the set iteration order inside _group_proteins: pin it so that a run is repeatable
        a0 = [x for x in sys.argv[1:]]
        seed0 = a0[a0.index("--seed") + 1] if "--seed" in a0 else "0"
        os.execve(sys.executable, [sys.executable, "-m", "harness.c16"] + a0,
                  dict(os.environ, PYTHONHASHSEED=str(int(seed0) % 4294967295)))
    a = args()
    emit([check_exhaustive(a.tier, a.seed), check_random(a.tier, a.seed), check_partial_decoys(a.tier, a.seed),
          check_decoys_sharing_peptides(a.tier, a.seed)],
         ["groups are observed through peptide_map / shared_peptides values only (read_fasta does not return the "
          "group table); protein names contain neither ', ' nor '; '",
          "databases in which no target yields a peptide are excluded (read_fasta raises ValueError by design)",
          "grouping_exhaustive / grouping_random: decoy entries mirror the targets (same incidence structure on the "
          "decoy side); grouping_partial_decoys: decoys for some targets only (the others have no decoy entry or one "
          "that yields no peptide inside the length window), no decoy entry without its target entry; 'paired with "
          "the equally named prefixed decoy' is read as protein_map[target] == prefix + target for every target that "
          "yields a peptide, whether or not that decoy is in the file (as for target-only databases)",
          "grouping_decoys_sharing_peptides: the grouping clauses are read as applying to all peptide-yielding entries "
          "regardless of prefix, so a decoy-prefixed entry whose peptides all occur in a target entry (hand-made decoy "
          "database, palindromic / low-complexity peptides surviving reversal) joins that target's group and vice "
          "versa; decoy-prefixed entries named after no target entry are allowed there and are never paired",
          "quick tier: one hash seed (PYTHONHASHSEED is pinned to --seed by re-executing the module when it is not "
          "set); thorough tier: two further hash seeds in subprocesses",
          "digest correctness itself is C17; here peptide sets come from designed sequences / the C17 oracle"])
