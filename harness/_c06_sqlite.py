"""C06, private helper: the PEP (q-value, score) stored in the SQLite result database of assign_confidence.

assign_confidence(..., sqlite_path=db) writes every level to a table of a caller-supplied database instead of the text
files: the PSM level UPDATEs CANDIDATE (PSM_FDR, SVM_SCORE, POSTERIOR_ERROR_PROBABILITY by CANDIDATE_ID), every other
level INSERTs (id, FDR, PEP, SVM_SCORE) into its own table.  The property says the PEP column of every result is
aligned with its row, so the value stored for an id must be that row's own value.

Oracle (nothing of the SQLite writer is used):
  * the same data set is run a second time WITHOUT sqlite_path (decoys=True): the text files targets.<level> /
    decoys.<level> list, per row id, the score, q-value and PEP of that row (their own alignment with the estimator is
    the subject of check pep_column_of_result_files); the database must hold the same three numbers under the same id;
  * directly from the property text, on the table alone: every stored PEP finite and in [0,1], never decreasing as the
    stored score worsens, equal for equal stored scores;
  * for peps_algorithm=qvality and a database that also holds the decoys: the stored PEP of a row must be a value
    triqler's qvality (called by the harness, harness.c06.qvality_reference) lists at the rank of the row's score;
    the label of a row is known from its id (the generator keeps target ids and decoy ids apart).
"""
import sqlite3

import numpy as np
import pandas as pd

from harness.datasets import make_ds, scratch

TOL = 1e-9
MIN_ROWS = 50
DECOY_ID = 1_000_000                              # ids of decoy peptides / precursors / ... start here
# level column of the data set -> (level name, table, id column of the table, id column of the text file)
LEVELS = {
    None: ("psms", "CANDIDATE", "CANDIDATE_ID", "PSMId"),
    "Precursor": ("precursors", "PRECURSOR_VALIDATION", "PCM_ID", "Precursor"),
    "ModifiedPeptide": ("modifiedpeptides", "MODIFIED_PEPTIDE_VALIDATION", "MODIFIED_PEPTIDE_ID", "ModifiedPeptide"),
    "Peptide": ("peptides", "PEPTIDE_VALIDATION", "PEPTIDE_ID", "peptide"),
    "PeptideGroup": ("peptidegroups", "PEPTIDE_GROUP_VALIDATION", "PEPTIDE_GROUP_ID", "PeptideGroup"),
}
# the sets of rollup levels a case asks for (k mod 4); every non-PSM table is used by two of them
LEVEL_SETS = (("Peptide",), ("Precursor", "Peptide"), ("ModifiedPeptide", "Peptide", "PeptideGroup"),
              ("Precursor", "ModifiedPeptide", "Peptide", "PeptideGroup"))
SCHEMA = (
    "CREATE TABLE CANDIDATE (CANDIDATE_ID INTEGER NOT NULL, PSM_FDR REAL, SVM_SCORE REAL,"
    " POSTERIOR_ERROR_PROBABILITY REAL, PRIMARY KEY (CANDIDATE_ID));",
    "CREATE TABLE PRECURSOR_VALIDATION (PCM_ID INTEGER NOT NULL, FDR REAL, PEP REAL, SVM_SCORE REAL,"
    " PRIMARY KEY (PCM_ID));",
    "CREATE TABLE MODIFIED_PEPTIDE_VALIDATION (MODIFIED_PEPTIDE_ID INTEGER NOT NULL, FDR REAL, PEP REAL,"
    " SVM_SCORE REAL, PRIMARY KEY (MODIFIED_PEPTIDE_ID));",
    "CREATE TABLE PEPTIDE_VALIDATION (PEPTIDE_ID INTEGER NOT NULL, FDR REAL, PEP REAL, SVM_SCORE REAL,"
    " PRIMARY KEY (PEPTIDE_ID));",
    "CREATE TABLE PEPTIDE_GROUP_VALIDATION (PEPTIDE_GROUP_ID INTEGER NOT NULL, FDR REAL, PEP REAL, SVM_SCORE REAL,"
    " PRIMARY KEY (PEPTIDE_GROUP_ID));",
)


def gen_sqlite_case(seed, k, alg):
    """A PIN-like table with integer ids. Spectra hold one PSM (k mod 8 < 4) or two competing PSMs (a target and a
    decoy); 55% of the targets are correct (f0 ~ N(2.5,1)), everything else ~ N(0,1); f0 rounded to 0.1 when
    (k div 2) mod 2 == 1 (ties). Every PSM has a precursor id drawn from a pool three times the number of PSMs (so
    some precursors are hit twice), coarsened to modified peptide (x0.9), peptide (x0.8) and peptide group (x0.7) ids;
    decoy ids are the same numbers + 1000000, so the label of a level row follows from its id.
    Sizes: 260..360 spectra for kde_nnls, 130..180 one-PSM spectra for qvality (triqler is cubic in the row count).
    Returns (table, level columns, f0)."""
    rng = np.random.default_rng([seed, k, 660])
    dup = 1 if (k % 8 < 4 or alg == "qvality") else 2
    ties = (k // 2) % 2 == 1
    n_spec = int(rng.integers(130, 181)) if alg == "qvality" else int(rng.integers(260, 361))
    level_columns = ("Peptide",) if alg == "qvality" else LEVEL_SETS[k % 4]
    rows, sid = [], 0
    for s in range(n_spec):
        first_is_target = bool(rng.random() < 0.5)
        for j in range(dup):
            tgt = first_is_target if j == 0 else not first_is_target
            sid += 1
            f0 = float(rng.normal(2.5, 1) if tgt and rng.random() < 0.55 else rng.normal(0, 1))
            prec = int(rng.integers(1, 3 * n_spec * dup + 1))
            off = 0 if tgt else DECOY_ID
            rows.append({"SpecId": sid, "Label": 1 if tgt else -1, "ScanNr": s + 1, "ExpMass": 500.0 + s,
                         "f0": round(f0, 1) if ties else f0, "f1": float(rng.normal(0, 1)),
                         "Peptide": off + 1 + (prec * 8) // 10, "Proteins": "prot%d" % (s % 5),
                         "Precursor": off + prec, "ModifiedPeptide": off + 1 + (prec * 9) // 10,
                         "PeptideGroup": off + 1 + (prec * 7) // 10})
    df = pd.DataFrame(rows)
    return df, level_columns, df["f0"].to_numpy(dtype=float)


def _same(a, b):
    return (a == b) | (np.abs(a - b) <= TOL)


def judge_sqlite(seed, k, desc, alg, sql_decoys, qvality_reference=None):
    """Run the real assign_confidence twice on the same data set (text files with decoys; SQLite database with or
    without the decoys) and compare. Returns (list of (class id, what), non-trivial?, meta)."""
    from mokapot import assign_confidence
    if qvality_reference is None:
        from harness.c06 import qvality_reference
    df, level_columns, f0 = gen_sqlite_case(seed, k, alg)
    score = f0 if desc else -f0
    tag = "desc-true" if desc else "desc-false"
    found, nontrivial, judged = [], False, 0
    meta = {"n_psms_in": int(len(df)), "levels": ["psms"] + [LEVELS[c][0] for c in level_columns]}
    extra = [c for c in level_columns if c != "Peptide"]
    label_of_psm = dict(zip(df["SpecId"].tolist(), (df["Label"] == 1).tolist()))

    def add(cid, what):
        if cid not in [f[0] for f in found]:
            found.append((cid, what))

    with scratch("h06s_") as d:
        text, dbdir, db = d / "text", d / "db", d / "results.db"
        text.mkdir()
        dbdir.mkdir()
        con = sqlite3.connect(db)
        for q in SCHEMA:
            con.execute(q)
        con.executemany("INSERT INTO CANDIDATE (CANDIDATE_ID) VALUES(?);", [(int(i),) for i in df["SpecId"]])
        con.commit()
        con.close()
        kw = dict(max_workers=1, descs=[desc], prefixes=[None], eval_fdr=0.05, deduplication=True, peps_algorithm=alg)
        try:
            ds = make_ds(df, d / "in1.pin", level_columns=level_columns, extra_metadata=extra)
            assign_confidence([ds], scores=[score.copy()], dest_dir=text, decoys=True, **kw)
        except BaseException as e:                       # noqa: BLE001  (triqler may call sys.exit)
            return [("sqlite-text-run-exception:%s/%s" % (type(e).__name__, tag), str(e)[:160])], False, meta
        try:
            ds = make_ds(df, d / "in2.pin", level_columns=level_columns, extra_metadata=extra)
            assign_confidence([ds], scores=[score.copy()], dest_dir=dbdir, decoys=sql_decoys, sqlite_path=db, **kw)
        except BaseException as e:                       # noqa: BLE001
            return [("sqlite-run-exception:%s/%s" % (type(e).__name__, tag), str(e)[:160])], False, meta
        con = sqlite3.connect(db)
        for col in (None,) + tuple(level_columns):
            level, table, idcol, textid = LEVELS[col]
            kind = "psm-table" if col is None else "level-tables"
            names = ("PSM_FDR", "POSTERIOR_ERROR_PROBABILITY") if col is None else ("FDR", "PEP")
            tab = pd.read_sql("SELECT %s AS id, SVM_SCORE AS score, %s AS q, %s AS pep FROM %s" % ((idcol,) + names
                                                                                                   + (table,)), con)
            if col is None:                               # CANDIDATE was pre-filled: a row is written if any value is
                tab = tab[tab[["score", "q", "pep"]].notna().any(axis=1)].reset_index(drop=True)
            parts = []
            for what in ("targets", "decoys"):
                try:
                    t = pd.read_csv(text / ("%s.%s" % (what, level)), sep="\t")
                    parts.append(t[[textid, "score", "q-value", "posterior_error_prob"]]
                                 .set_axis(["id", "score", "q", "pep"], axis=1).assign(is_target=(what == "targets")))
                except Exception as e:                   # noqa: BLE001
                    add("sqlite-text-file-unreadable/" + tag, "%s.%s: %s: %s" % (what, level, type(e).__name__,
                                                                                 str(e)[:120]))
            if len(parts) < 2:
                continue
            meta[level] = {"targets": int(len(parts[0])), "decoys": int(len(parts[1])), "in_db": int(len(tab))}
            if min(len(parts[0]), len(parts[1])) < MIN_ROWS:     # outside the quantifier domain of the property
                meta[level]["judged"] = False
                continue
            judged += 1
            want = pd.concat(parts if sql_decoys else parts[:1], ignore_index=True)
            if want["id"].duplicated().any() or tab["id"].duplicated().any():
                add("sqlite-row-id-not-unique/" + kind, "%s: a row id occurs twice in the text files or the table"
                    % level)
                continue
            # one set of values per row of the level
            wid, gid = set(want["id"].tolist()), set(tab["id"].tolist())
            if wid != gid:
                add("sqlite-rows-differ-from-text-files/" + kind,
                    "%s: table %s holds %d rows, the text files (%s) %d; %d ids only in the table, %d only in the files"
                    % (level, table, len(gid), "targets+decoys" if sql_decoys else "targets", len(wid),
                       len(gid - wid), len(wid - gid)))
            m = want.merge(tab, on="id", suffixes=("_txt", "_db"))
            if len(m) == 0:
                continue
            got = {c: pd.to_numeric(m[c + "_db"], errors="coerce").to_numpy(dtype=float) for c in ("score", "q", "pep")}
            exp = {c: pd.to_numeric(m[c + "_txt"], errors="coerce").to_numpy(dtype=float)
                   for c in ("score", "q", "pep")}
            if len(np.unique(exp["pep"])) > 1 and np.any(~_same(exp["pep"], exp["q"])) and col is not None:
                nontrivial = True                        # a rollup table whose PEPs vary and differ from the q-values
            # (1) the property on the table alone
            p, s = got["pep"], got["score"]
            if not np.all(np.isfinite(p)):
                add("sqlite-pep-non-finite/" + kind, "%s: %d of %d stored PEPs are NULL / not finite"
                    % (level, int((~np.isfinite(p)).sum()), len(p)))
            else:
                if p.min() < 0 or p.max() > 1:
                    add("sqlite-pep-out-of-range/" + kind, "%s: stored PEPs span [%r, %r]"
                        % (level, float(p.min()), float(p.max())))
                if np.all(np.isfinite(s)):
                    better = s if desc else -s
                    o = np.argsort(-better, kind="stable")
                    ps, so = p[o], s[o]
                    worse = ps[1:] < ps[:-1] - TOL
                    if np.any(worse):
                        i = int(np.argmax(worse))
                        add("sqlite-pep-not-monotone/%s/%s" % (kind, tag),
                            "%s: the stored PEP drops %d times as the stored score worsens, e.g. from %r to %r as the "
                            "score goes from %r to %r" % (level, int(worse.sum()), float(ps[i]), float(ps[i + 1]),
                                                          float(so[i]), float(so[i + 1])))
                    if np.any((so[1:] == so[:-1]) & ~_same(ps[1:], ps[:-1])):
                        add("sqlite-pep-ties-unequal/" + kind, "%s: equal stored scores carry different PEPs" % level)
            # (2) the row's own values, as listed in the text files of the same data set
            for c, name, cid in (("pep", "PEP", "sqlite-pep-not-the-rows-pep/"),
                                 ("q", "q-value", "sqlite-qvalue-not-the-rows-qvalue/"),
                                 ("score", "score", "sqlite-score-not-the-rows-score/")):
                bad = ~_same(got[c], exp[c])
                if np.any(bad):
                    i = int(np.argmax(bad))
                    hint = ""
                    if c == "pep" and np.all(_same(got["pep"], exp["q"])):
                        hint = " (every stored PEP equals the row's q-value)"
                    add(cid + kind,
                        "%s: %d of %d rows of table %s do not store the %s the text files list for the same id, max "
                        "|diff| %.3g; e.g. id %d (score %r): stored %r, the row's %s is %r%s"
                        % (level, int(bad.sum()), len(bad), table, name,
                           float(np.nanmax(np.abs(np.where(bad, got[c] - exp[c], 0.0)))), int(m["id"][i]),
                           float(exp["score"][i]), float(got[c][i]), name, float(exp[c][i]), hint))
            # (3) independent of mokapot: triqler's qvality by rank, on a table that holds targets and decoys
            if alg == "qvality" and sql_decoys and wid == gid and np.all(np.isfinite(p)) and np.all(np.isfinite(s)):
                ids = m["id"].to_numpy()
                lab = np.array([label_of_psm[int(i)] for i in ids]) if col is None else ids < DECOY_ID
                if np.array_equal(lab, m["is_target"].to_numpy(dtype=bool)):
                    try:
                        lo, hi = qvality_reference((s if desc else -s).astype(float), lab)
                    except RuntimeError as e:
                        add("sqlite-triqler-reference-failed", "%s: %s" % (level, str(e)[:120]))
                        continue
                    bad = (p < lo - TOL) | (p > hi + TOL)
                    if np.any(bad):
                        i = int(np.argmax(bad))
                        add("sqlite-pep-not-qvality-pep-of-own-rank/" + kind,
                            "%s: %d of %d rows of table %s do not store the PEP triqler's qvality lists for the rank of "
                            "their score, max |diff| %.3g; e.g. id %d: stored %r, triqler %r"
                            % (level, int(bad.sum()), len(bad), table,
                               float(np.max(np.abs(p - np.clip(p, lo, hi)))), int(ids[i]), float(p[i]), float(lo[i])))
                else:
                    add("sqlite-label-of-id-differs/" + kind, "%s: a row of the targets/decoys file has an id of the "
                        "other label" % level)
        con.close()
    meta["levels_judged"] = judged
    return found, nontrivial, meta
