"""Bounded stand-ins and replay adapters.  Runs under /venv/bin/python (real mokapot, numpy, pandas).
Never counted as proof: every check states its bound."""
