"""C19 bounded stand-in: PIN -> rectangular TSV conversion is lossless, order-preserving and idempotent.

Exhaustive small PIN texts are built from their parts (header fields, per-PSM field values and protein lists);
the expected output is assembled from these parts directly (the oracle never splits or joins the PIN text and
never calls the functions under test).  Real functions: mokapot.parsers.pin_to_tsv.pin_to_valid_tsv /
is_valid_tsv, and the verify step of the CLI: the `if config.verify_pin:` block is cut out of the real
mokapot/mokapot.py with `ast` at run time and executed on real files with a stub `config`.

A third check puts characters that quoting / escaping table readers treat specially (double quotes in every
position, quotes around a TAB or a line break, backslashes, apostrophes, carriage return and other separator-like
control characters, punctuation) into the fields: the format has no quoting, so the oracle is still the plain
assembly of the parts.
"""
import ast
import csv
import io
import itertools
import json
import logging
import os
import random
import shutil
import warnings

from harness.common import Check, args, emit, REPO
from harness.datasets import scratch

warnings.filterwarnings("ignore")
logging.disable(logging.CRITICAL)

SEP_PROT = ":"


# ------------------------------------------------------------------------------------------------ domain
class Pin:
    """One PIN text, described by its parts."""
    def __init__(self, n_feat, prot_pos, prot_counts, default_direction, trailing_newline):
        self.n_feat, self.prot_pos, self.prot_counts = n_feat, prot_pos, tuple(prot_counts)
        self.dd, self.nl = default_direction, trailing_newline
        self.other_cols = ["SpecId", "Label"] + ["feat%d" % k for k in range(n_feat)] + ["Peptide"]
        self.header = self.other_cols[:prot_pos] + ["Proteins"] + self.other_cols[prot_pos:]
        self.rows = []
        for r, n_prot in enumerate(self.prot_counts):
            vals = []
            for c, name in enumerate(self.other_cols):
                if name == "SpecId":
                    vals.append("target_0_%d_2_-1" % (100 + r))
                elif name == "Label":
                    vals.append("1" if r % 2 == 0 else "-1")
                elif name == "Peptide":
                    vals.append("K.PEP%dTIDE.R" % r)
                else:
                    vals.append("%d.%d5" % (r + 1, c))
            prots = ["sp|Q%d%d|PR%d_HUMAN" % (r, k, k) for k in range(n_prot)]
            self.rows.append((vals, prots))

    def key(self):
        return (self.n_feat, self.prot_pos, self.prot_counts, self.dd, self.nl)

    def as_input(self):
        return {"n_feat": self.n_feat, "prot_pos": self.prot_pos, "prot_counts": list(self.prot_counts),
                "default_direction": self.dd, "trailing_newline": self.nl}

    @staticmethod
    def from_input(i):
        return Pin(i["n_feat"], i["prot_pos"], i["prot_counts"], i["default_direction"], i["trailing_newline"])

    # the PIN text: proteins as a tab-separated list of variable length in the place of the protein column
    def text(self):
        lines = ["\t".join(self.header)]
        if self.dd:
            # 1: the form of the percolator documentation (no Peptide / Proteins entries, shorter than the header);
            # 2: padded to the width of the header (the file is rectangular but still has the line)
            dd = ["DefaultDirection", "-", "-"] + ["0.%d" % (k + 1) for k in range(self.n_feat)]
            if self.dd == 2:
                dd = (dd + ["-", "-"])[:len(self.header)]
            lines.append("\t".join(dd))
        for vals, prots in self.rows:
            lines.append("\t".join(vals[:self.prot_pos] + prots + vals[self.prot_pos:]))
        return "\n".join(lines) + ("\n" if self.nl else "")

    # ---- oracle, from the statement
    def expected_lines(self):
        out = [list(self.header)]
        for vals, prots in self.rows:
            out.append(vals[:self.prot_pos] + [SEP_PROT.join(prots)] + vals[self.prot_pos:])
        return out                                    # list of field lists

    def expected_valid(self):
        """valid exactly when all lines have as many fields as the header and there is no DefaultDirection line"""
        return (not self.dd) and all(len(prots) == 1 for _, prots in self.rows)

    def nontrivial(self):
        return self.dd or any(len(p) > 1 for _, p in self.rows)


def all_pins(tier):
    max_feat, max_rows = (2, 3) if tier == "quick" else (3, 4)
    for n_feat in range(0, max_feat + 1):
        for prot_pos in range(0, 3 + n_feat + 1):
            for n_rows in range(1, max_rows + 1):
                for counts in itertools.product((1, 2, 3), repeat=n_rows):
                    for dd in (0, 1, 2):
                        for nl in (False, True):
                            yield Pin(n_feat, prot_pos, counts, dd, nl)


def out_lines(text):
    """The table lines of an output text: one trailing newline is not a line."""
    lines = text.split("\n")
    if lines and lines[-1] == "":
        lines = lines[:-1]
    return [ln.split("\t") for ln in lines]


def judge_conversion(pin, got_text):
    """-> list of (class, text)"""
    exp = pin.expected_lines()
    got = out_lines(got_text)
    where = "last" if pin.prot_pos == len(pin.other_cols) else "not-last"
    if not got or got[0] != exp[0]:
        return [("header-changed", "header %r, expected %r" % (got[:1], exp[0]))]
    if any(ln and ln[0].startswith("DefaultDirection") for ln in got[1:]):
        return [("default-direction-kept", "output still holds a DefaultDirection line")]
    if len(got) != len(exp):
        return [("line-count-differs", "%d lines, expected %d (header + one per PSM)" % (len(got), len(exp)))]
    for r in range(1, len(exp)):
        if got[r] == exp[r]:
            continue
        if len(got[r]) != len(exp[r]):
            return [("protein-column-%s-not-rectangular" % where,
                     "PSM %d has %d fields, header has %d: %r" % (r - 1, len(got[r]), len(exp[r]), got[r]))]
        if got[r][pin.prot_pos] != exp[r][pin.prot_pos]:
            return [("protein-column-%s-wrong" % where, "PSM %d protein field %r, expected %r"
                     % (r - 1, got[r][pin.prot_pos], exp[r][pin.prot_pos]))]
        return [("non-protein-field-changed", "PSM %d fields %r, expected %r" % (r - 1, got[r], exp[r]))]
    return []


# ------------------------------------------------------------------------------------------------ converter
def run_converter_case(pin):
    from mokapot.parsers.pin_to_tsv import pin_to_valid_tsv, is_valid_tsv
    probs = []
    text = pin.text()
    # validity predicate on the PIN text itself
    try:
        v = is_valid_tsv(io.StringIO(text))
        if bool(v) != pin.expected_valid():
            probs.append(("is-valid-false-positive" if v else "is-valid-false-negative",
                          "is_valid_tsv(input) = %r, expected %r" % (v, pin.expected_valid())))
    except Exception as e:                                            # noqa: BLE001
        probs.append(("is-valid-raises-" + type(e).__name__, str(e)[:150]))
    # conversion
    try:
        out = io.StringIO()
        pin_to_valid_tsv(f_in=io.StringIO(text), f_out=out)
        converted = out.getvalue()
    except Exception as e:                                            # noqa: BLE001
        probs.append(("convert-raises-" + type(e).__name__, str(e)[:150]))
        return probs
    probs.extend(judge_conversion(pin, converted))
    # output recognised as valid
    try:
        if not is_valid_tsv(io.StringIO(converted)):
            probs.append(("output-not-valid", "is_valid_tsv(converted) is False"))
    except Exception as e:                                            # noqa: BLE001
        probs.append(("output-valid-raises-" + type(e).__name__, str(e)[:150]))
    # idempotent
    try:
        out2 = io.StringIO()
        pin_to_valid_tsv(f_in=io.StringIO(converted), f_out=out2)
        if out_lines(out2.getvalue()) != out_lines(converted):
            probs.append(("not-idempotent", "second conversion gives %r, first gave %r"
                          % (out2.getvalue()[:120], converted[:120])))
    except Exception as e:                                            # noqa: BLE001
        probs.append(("reconvert-raises-" + type(e).__name__, str(e)[:150]))
    return probs


def check_converter(tier, seed):
    mf, mr = (2, 3) if tier == "quick" else (3, 4)
    ck = Check("pin_to_tsv_lossless_idempotent",
               "mokapot.parsers.pin_to_tsv.pin_to_valid_tsv / is_valid_tsv (parse_pin_header_columns, "
               "convert_line_pin_to_tsv)",
               "exhaustive: PIN texts with SpecId, Label, 0..%d feature columns, Peptide and the Proteins column at "
               "every header position (first .. last), 1..%d PSM rows, every assignment of 1..3 proteins per row, "
               "without / with a DefaultDirection line (documented short form and a form padded to the header width), "
               "with/without trailing newline (in-memory text streams)"
               % (mf, mr),
               "oracle assembled from the parts of the text: same header, one line per PSM in order, non-protein "
               "fields unchanged, proteins joined by ':' in the protein column, no DefaultDirection line; "
               "is_valid_tsv(output); second conversion = first; is_valid_tsv(input) iff every row has one protein "
               "and there is no DefaultDirection line; non-trivial = a row with 2+ proteins or a DefaultDirection "
               "line (the conversion has to change something)")
    for pin in all_pins(tier):
        ck.case(pin.key(), nontrivial=pin.nontrivial())
        for cls, text in run_converter_case(pin):
            ck.violation(cls, text, pin.as_input())
    return ck


# ------------------------------------------------------------------------------------------------ CLI verify step
_VERIFY_CODE = None


def verify_block():
    """The `if config.verify_pin:` statement of mokapot.mokapot.main, compiled from the real source."""
    global _VERIFY_CODE
    if _VERIFY_CODE is None:
        path = os.path.join(REPO, "mokapot", "mokapot.py")
        tree = ast.parse(open(path).read(), filename=path)
        main = [n for n in tree.body if isinstance(n, ast.FunctionDef) and n.name == "main"][0]
        found = [n for n in ast.walk(main) if isinstance(n, ast.If)
                 and ast.unparse(n.test).replace(" ", "") == "config.verify_pin"]
        if len(found) != 1:
            raise RuntimeError("expected exactly one `if config.verify_pin:` block in %s, found %d"
                               % (path, len(found)))
        mod = ast.Module(body=[found[0]], type_ignores=[])
        _VERIFY_CODE = compile(mod, path, "exec")
    return _VERIFY_CODE


class _Stub:
    def __init__(self, **kw):
        self.__dict__.update(kw)


def run_verify_step(paths):
    import mokapot.parsers.pin_to_tsv as p2t
    quiet = _Stub(info=lambda *a, **k: None, debug=lambda *a, **k: None, warning=lambda *a, **k: None,
                  error=lambda *a, **k: None)
    ns = {"config": _Stub(verify_pin=True, psm_files=list(paths)), "logging": quiet, "shutil": shutil,
          "is_valid_tsv": p2t.is_valid_tsv, "pin_to_valid_tsv": p2t.pin_to_valid_tsv, "open": open}
    exec(verify_block(), ns)


JUNK = "junk-header\tx\njunk-line-1\ty\n"


def run_cli_case(d, pin, stale, as_path_objects, second=None):
    """Write the PIN text (and optionally a stale '<pin>.tsv'), run the real verify block, inspect the input file."""
    from pathlib import Path
    p = os.path.join(str(d), "in.pin")
    with open(p, "w", newline="") as f:
        f.write(pin.text())
    tsv = p + ".tsv"
    if os.path.exists(tsv):
        os.remove(tsv)
    if stale:
        with open(tsv, "w", newline="") as f:
            f.write(JUNK)
    files = [p]
    if second is not None:
        p2 = os.path.join(str(d), "in2.pin")
        with open(p2, "w", newline="") as f:
            f.write(second.text())
        if os.path.exists(p2 + ".tsv"):
            os.remove(p2 + ".tsv")
        files.append(p2)
    try:
        run_verify_step([Path(x) for x in files] if as_path_objects else files)
    except Exception as e:                                            # noqa: BLE001
        return [("cli-raises-" + type(e).__name__, str(e)[:200])]
    probs = []
    for path, pn in zip(files, [pin, second]):
        with open(path, newline="") as f:
            after = f.read()
        if pn.expected_valid():
            if after != pn.text():
                probs.append(("cli-valid-file-modified", "a valid file was rewritten: %r" % after[:150]))
            continue
        bad = judge_conversion(pn, after)
        if bad and stale and path == p and "junk" in after:
            probs.append(("stale-tsv-mixed-in", "input file holds the content of the stale '<pin>.tsv' mixed with "
                          "the converted table: %r" % after[:150]))
        else:
            probs.extend(("cli-" + c, t) for c, t in bad)
    return probs


def cli_pins(tier):
    """A deterministic sub-family for the file-based CLI step: every header shape, rows 1..2 exhaustive plus the
    3-row texts whose protein counts are strictly mixed."""
    for pin in all_pins(tier):
        n = len(pin.prot_counts)
        if n <= 2 or pin.prot_counts in ((1, 2, 3), (3, 1, 2), (2, 3, 1), (1, 1, 1), (3, 3, 3)):
            yield pin


def check_cli(tier, seed):
    ck = Check("cli_verify_step",
               "mokapot.mokapot.main: the `if config.verify_pin:` block (cut out of the real source with ast, run "
               "with a stub config) -> is_valid_tsv / pin_to_valid_tsv / shutil.move on real files",
               "exhaustive over the PIN texts of the converter check with 1..2 rows plus 5 protein-count patterns "
               "of 3 rows; each without and with a stale '<pin>.tsv' holding junk, psm_files given as str and as "
               "Path alternately; every 7th case with a second PSM file in the same call",
               "afterwards the input file holds exactly the expected converted table (or is byte-identical if it "
               "was already valid); non-trivial = the file needed conversion")
    with scratch("c19_") as d:
        for j, pin in enumerate(cli_pins(tier)):
            for stale in (False, True):
                second = None
                if j % 7 == 3:
                    second = Pin(1, 2, (2, 1), default_direction=j % 3, trailing_newline=True)
                ck.case((pin.key(), stale, second is not None), nontrivial=pin.nontrivial())
                for cls, text in run_cli_case(d, pin, stale, as_path_objects=(j % 2 == 0), second=second):
                    inp = pin.as_input()
                    inp.update({"stale": stale, "as_path_objects": j % 2 == 0,
                                "second": None if second is None else second.as_input()})
                    ck.violation(cls, text, inp)
    return ck


# ------------------------------------------------------------------------------------------------ special characters
def _mid(ins):
    """insert `ins` strictly inside the field (not applicable to one-character fields)"""
    def f(v):
        if len(v) < 2:
            return None
        m = len(v) // 2
        return v[:m] + ins + v[m:]
    return f


# one field is rewritten; the value stays ONE field of the TAB-separated line (no TAB, no '\n' is added, nothing at
# the boundary of a line is whitespace).  name -> (class of the case id, function)
FIELD_KINDS = {
    "q-lead": ("quote-char", lambda v: '"' + v),
    "q-trail": ("quote-char", lambda v: v + '"'),
    "q-both": ("quote-char", lambda v: '"' + v + '"'),
    "q-mid": ("quote-char", _mid('"')),
    "q-mid-pair": ("quote-char", _mid('"x"')),
    "qq-lead": ("quote-char", lambda v: '""' + v),
    "qq-trail": ("quote-char", lambda v: v + '""'),
    "qq-mid": ("quote-char", _mid('""')),
    "q-both-qq-mid": ("quote-char", lambda v: None if len(v) < 2 else '"' + _mid('""')(v) + '"'),
    "qq-only": ("quote-char", lambda v: '""'),
    "q-only": ("quote-char", lambda v: '"'),
    "qqq-lead": ("quote-char", lambda v: '"""' + v),
    "q-both-text-after": ("quote-char", lambda v: '"' + v + '"x'),
    "bs-lead": ("backslash", lambda v: "\\" + v),
    "bs-trail": ("backslash", lambda v: v + "\\"),               # a backslash right before the TAB / line end
    "bs-mid": ("backslash", _mid("\\")),
    "bs-n-trail": ("backslash", lambda v: v + "\\n"),            # the two characters backslash, n
    "bs-q-lead": ("backslash", lambda v: '\\"' + v),
    "q-both-bs-q": ("backslash", lambda v: '"' + v + '\\"'),     # a closing quote that an escapechar reader skips
    "apos-lead": ("apostrophe", lambda v: "'" + v),
    "apos-both": ("apostrophe", lambda v: "'" + v + "'"),
    "cr-mid": ("carriage-return", _mid("\r")),
    "ff-mid": ("separator-like-control-char", _mid("\x0c")),     # str.splitlines() breaks lines here, the format not
    "us-mid": ("separator-like-control-char", _mid("\x1f")),
    "nel-mid": ("separator-like-control-char", _mid("\x85")),
    "comma-mid": ("punctuation", _mid(",")),
    "semicolon-mid": ("punctuation", _mid(";")),
    "space-mid": ("punctuation", _mid(" ")),
    "hash-lead": ("punctuation", lambda v: "#" + v),
}
# characters that cannot be written to / read back from a FILE opened in text mode unchanged (universal newlines,
# non-ASCII): these kinds are used on in-memory streams only
MEMORY_ONLY_KINDS = {"cr-mid", "nel-mid"}

# two fields i < j of a line (or of two consecutive lines) are rewritten: a quoted stretch opens in the first and
# closes in the second, so the TABs (and line break) between them stand "inside quotes".  name -> (class, open, close)
SPAN_KINDS = {
    "span-q": ("quoted-tab", lambda v: '"' + v, lambda v: v + '"'),
    "span-q-text-after": ("quoted-tab", lambda v: '"' + v, lambda v: v + '"x'),
    "span-q-qq-inside": ("quoted-tab", lambda v: '"' + v + '""', lambda v: v + '"'),
    "span-q-open-mid": ("quoted-tab", lambda v: (_mid('"')(v) or v + '"'), lambda v: v + '"'),
    "span-apos": ("apostrophe-quoted-tab", lambda v: "'" + v, lambda v: v + "'"),
}
XLINE_KINDS = ("span-q", "span-q-text-after")
# the kinds that are also run as real files through the CLI verify step (file cases are slow on a loaded machine)
FILE_KINDS = {"span-q", "span-q-text-after", "q-lead", "q-trail", "q-both", "qq-only", "bs-trail", "apos-both",
              "ff-mid"}


class SpecialPin(Pin):
    """A Pin some of whose fields were rewritten.  decor: list of [kind, line_i, i, line_j, j]; line -1 is the
    header, line r >= 0 the r-th PSM row; i, j index the fields of the WHOLE line (protein fields included)."""
    def __init__(self, n_feat, prot_pos, prot_counts, default_direction, trailing_newline, decor):
        Pin.__init__(self, n_feat, prot_pos, prot_counts, default_direction, trailing_newline)
        self.decor = [list(d) for d in decor]
        pos = prot_pos
        lines = {-1: list(self.header)}
        for r, (vals, prots) in enumerate(self.rows):
            lines[r] = vals[:pos] + prots + vals[pos:]
        for kind, li, i, lj, j in self.decor:
            if (li == -1 and i == pos) or (lj == -1 and j == pos):
                raise ValueError("the name of the protein column is not rewritten")
            if kind in FIELD_KINDS:
                new = FIELD_KINDS[kind][1](lines[li][i])
                if new is None:
                    raise ValueError("%s not applicable to %r" % (kind, lines[li][i]))
                lines[li][i] = new
            else:
                if not ((li == lj and i < j) or (lj == li + 1 and li >= 0)):
                    raise ValueError("bad span")
                _, op, cl = SPAN_KINDS[kind]
                lines[li][i] = op(lines[li][i])
                lines[lj][j] = cl(lines[lj][j])
        self.header = lines[-1]
        self.other_cols = self.header[:pos] + self.header[pos + 1:]
        self.rows = []
        for r, n in enumerate(self.prot_counts):
            full = lines[r]
            self.rows.append((full[:pos] + full[pos + n:], full[pos:pos + n]))

    def key(self):
        return (self.text(), self.prot_pos, self.prot_counts)

    def as_input(self):
        d = Pin.as_input(self)
        d["decor"] = self.decor
        return d

    @staticmethod
    def from_input(i):
        return SpecialPin(i["n_feat"], i["prot_pos"], i["prot_counts"], i["default_direction"],
                          i["trailing_newline"], i["decor"])

    def case_class(self):
        """stable prefix of the case ids: where the special characters stand and of which kind they are"""
        kinds = set()
        for kind, li, i, lj, j in self.decor:
            cls = (FIELD_KINDS.get(kind) or SPAN_KINDS.get(kind))[0]
            if kind in SPAN_KINDS and li != lj:
                cls = "quoted-line-break"
            kinds.add(("header-" if li == -1 else "") + cls)
        return kinds.pop() if len(kinds) == 1 else "mixed-special-chars"

    def file_safe(self):
        return not any(kind in MEMORY_ONLY_KINDS for kind, *_ in self.decor)

    def tab_lines(self):
        """the field lists of all lines of the text, from the parts"""
        out = [list(self.header)]
        if self.dd:
            out.append(self.text().split("\n")[1].split("\t"))      # the (undecorated) DefaultDirection line
        pos = self.prot_pos
        return out + [vals[:pos] + prots + vals[pos:] for vals, prots in self.rows]

    def quoting_matters(self):
        """Measurement for the non-triviality count only (never for the expected answer): does a quote-aware reader
        (Python's csv module, TAB delimiter, default dialect) see other fields than plain TAB splitting?
        -> (differs, rectangular for the csv reader)"""
        try:
            rows = list(csv.reader(io.StringIO(self.text(), newline=""), delimiter="\t"))
        except csv.Error:
            return True, None
        rect = bool(rows) and all(len(r) == len(rows[0]) for r in rows) and not self.dd
        return rows != self.tab_lines(), rect


def _line_decors(n_fields, line, skip=None):
    idx = [i for i in range(n_fields) if i != skip]
    for kind in FIELD_KINDS:
        for i in idx:
            yield [kind, line, i, line, i]
    for kind in SPAN_KINDS:
        for i, j in itertools.combinations(idx, 2):
            yield [kind, line, i, line, j]


def special_pins(tier):
    """-> (SpecialPin, also_as_file).  Deterministic families A (one rewritten PSM row), B (a quoted stretch that runs
    over a line break), C (rewritten header)."""
    quick = tier == "quick"
    for n_feat in ((1,) if quick else (0, 1, 2)):
        n_other = 3 + n_feat
        for pos in range(n_other + 1):
            # A: one decoration on one PSM row that has 1..3 proteins
            for n_prot in (1, 2, 3):
                ctx = [((n_prot,), 0, 0, False, False), ((n_prot,), 0, 0, True, False),
                       ((n_prot, 1), 0, 0, True, False), ((n_prot, 2), 0, 0, True, False),
                       ((1, n_prot), 1, 0, True, True), ((1, n_prot), 1, 0, False, False),
                       ((2, n_prot), 1, 0, True, False),
                       ((n_prot,), 0, 1, True, False), ((n_prot,), 0, 2, True, False)]
                if not quick:
                    ctx += [((1, n_prot, 1), 1, 0, True, True), ((3, n_prot, 2), 1, 0, False, False),
                            ((1, 1, n_prot), 2, 0, False, True), ((n_prot, 1, 1), 0, 1, True, False)]
                for counts, d, dd, nl, as_file in ctx:
                    for dec in _line_decors(n_other + n_prot, d):
                        try:
                            yield (SpecialPin(n_feat, pos, counts, dd, nl, [dec]),
                                   as_file and dec[0] in FILE_KINDS)
                        except ValueError:
                            pass
            # B: the quote opens on one row and closes on the next one
            for a, b in itertools.product((1, 2, 3), repeat=2):
                la, lb = n_other + a, n_other + b
                pairs = {(i, lb - 1) for i in range(la)} | {(la - 1, j) for j in range(lb)} | {(pos, pos + b - 1)}
                for kind in XLINE_KINDS:
                    for i, j in sorted(pairs):
                        for counts, r0, nl in (((a, b), 0, True), ((a, b), 0, False), ((1, a, b), 1, True)):
                            if quick and len(counts) == 3 and (i, j) != (pos, pos + b - 1):
                                continue
                            yield (SpecialPin(n_feat, pos, counts, 0, nl, [[kind, r0, i, r0 + 1, j]]),
                                   nl and r0 == 0 and (i, j) in ((pos, pos + b - 1), (la - 1, lb - 1)))
            # C: rewritten column names (not the name of the protein column)
            for counts, dd, nl in (((1,), 0, True), ((2,), 0, True), ((1, 1), 0, False), ((1, 3), 0, True),
                                   ((1,), 1, True)):
                for dec in _line_decors(n_other + 1, -1, skip=pos):
                    try:
                        yield (SpecialPin(n_feat, pos, counts, dd, nl, [dec]),
                               counts == (2,) and dec[0] in FILE_KINDS)
                    except ValueError:
                        pass


def random_special_pins(tier, seed):
    """Seeded-random texts with 1..3 decorations anywhere (header, rows, over line breaks)."""
    rng = random.Random(seed * 7919 + 19)
    n = 2500 if tier == "quick" else 40000
    fkinds, skinds = sorted(FIELD_KINDS), sorted(SPAN_KINDS)
    made = 0
    while made < n:
        n_feat = rng.randint(0, 2)
        n_other = 3 + n_feat
        pos = rng.randint(0, n_other)
        counts = tuple(rng.choice((1, 1, 2, 3)) for _ in range(rng.randint(1, 4)))
        dd = rng.choice((0, 0, 0, 1, 2))
        nl = rng.random() < 0.7
        decor = []
        for _ in range(rng.randint(1, 3)):
            line = rng.randint(-1, len(counts) - 1)
            width = n_other + (1 if line == -1 else counts[line])
            shape = rng.random()
            if shape < 0.45:
                i = rng.randrange(width)
                decor.append([rng.choice(fkinds), line, i, line, i])
            elif shape < 0.85 or line == -1 or line + 1 >= len(counts):
                i, j = sorted(rng.sample(range(width), 2))
                decor.append([rng.choice(skinds), line, i, line, j])
            else:
                decor.append([rng.choice(XLINE_KINDS), line, rng.randrange(width), line + 1,
                              rng.randrange(n_other + counts[line + 1])])
        try:
            pin = SpecialPin(n_feat, pos, counts, dd, nl, decor)
        except ValueError:
            continue
        made += 1
        yield pin, False


def run_special_case(pin, d=None, as_path_objects=False):
    """in-memory converter case (d is None) or the CLI verify step on a file in directory d; case ids carry the
    class of the special characters in front"""
    probs = run_converter_case(pin) if d is None else run_cli_case(d, pin, False, as_path_objects)
    return [("%s:%s" % (pin.case_class(), cls), text) for cls, text in probs]


def check_special(tier, seed):
    quick = tier == "quick"
    ck = Check("special_characters_tab_only_splitting",
               "mokapot.parsers.pin_to_tsv.pin_to_valid_tsv / is_valid_tsv on in-memory text streams; for a "
               "sub-family also the `if config.verify_pin:` block of mokapot.mokapot.main on real files",
               "", "")
    n_mem = n_file = n_differs = n_sharp = 0
    first = {}                       # case id -> first violation of it (Check keeps 5: show 5 different classes)
    with scratch("c19s_") as d:
        for gen in (special_pins(tier), random_special_pins(tier, seed)):
            for pin, as_file in gen:
                differs, csv_rect = pin.quoting_matters()
                n_differs += differs
                n_sharp += csv_rect is not None and csv_rect != pin.expected_valid()
                ck.case(pin.key(), nontrivial=differs)
                n_mem += 1
                for cls, text in run_special_case(pin):
                    first.setdefault(cls, (text, pin.as_input()))
                if as_file and pin.file_safe():
                    ck.case(("file",) + pin.key(), nontrivial=differs)
                    n_file += 1
                    as_path = n_file % 2 == 0
                    for cls, text in run_special_case(pin, d, as_path):
                        inp = pin.as_input()
                        inp["cli"] = {"as_path_objects": as_path}
                        first.setdefault(cls, (text, inp))
    rank = lambda c: (0 if c.startswith("quoted-tab:") else 1 if "quoted-" in c else 2)
    for cls in sorted(first, key=rank):                               # stable: first occurrence within a rank
        ck.violation(cls, first[cls][0], first[cls][1])
    ck.bound = (
        "exhaustive: PIN texts with SpecId, Label, %s feature column(s), Peptide and the Proteins column at every "
        "header position, in which ONE field is rewritten in one of %d ways (double quote leading / trailing / both "
        "/ inside / doubled / tripled / alone / followed by text, backslash leading / trailing / inside / before a "
        "quote, apostrophes, carriage return, form feed, unit separator, NEL, comma, semicolon, space, '#') or TWO "
        "fields i < j of a line are made the ends of a quoted stretch in one of %d ways (so that 1.. TABs stand "
        "inside quotes; all pairs i < j): (A) on a PSM row with 1..3 proteins, as the only row, as first or second "
        "of 2 rows next to a row with 1 or 2 proteins%s, with/without trailing newline, with a DefaultDirection line "
        "(both forms); (B) the quote opens on one row and closes on the next (rows with 1..3 proteins each, also "
        "after a one-protein row; from "
        "every field to the last field of the next row, from the last field to every field, protein field to protein "
        "field); (C) the same rewritings on the column names other than 'Proteins' (rows with 1, 2, 1+1, 1+3 "
        "proteins, with a DefaultDirection line).  random: %d texts, seed %d, 0..2 feature columns, 1..4 rows, "
        "1..3 proteins, DefaultDirection line in 2 of 5, 1..3 rewritings anywhere.  Measured: %d in-memory texts, "
        "%d of them also as files through the CLI verify step (%d of the rewritings, on the second of two rows / over "
        "the line break of two rows / on the header of a one-row file; never carriage return or NEL: a text-mode "
        "file does not give them back unchanged); on %d texts Python's csv reader (TAB delimiter) sees "
        "other fields than TAB splitting, on %d it disagrees with TAB counting about the file being rectangular"
        % ("1" if quick else "0..2", len(FIELD_KINDS), len(SPAN_KINDS),
           "" if quick else ", as first / second / third of 3 rows",
           2500 if quick else 40000, seed, n_mem, n_file, len(FILE_KINDS), n_differs, n_sharp))
    ck.rule = (
        "the format has no quoting or escaping: the oracle is assembled from the (rewritten) parts exactly as in the "
        "first check - same header, one line per PSM, every non-protein field unchanged and in place, the protein "
        "fields joined by ':'; is_valid_tsv(input) iff every row has exactly one protein field and there is no "
        "DefaultDirection line; is_valid_tsv(output); second conversion = first; file cases: afterwards the file "
        "holds the expected table (byte-identical if it was valid).  Case ids are '<where/what kind of special "
        "character>:<what went wrong>'.  non-trivial = a quote-aware reader (Python csv, measured, not used for the "
        "expected answer) splits the text into other fields than TAB splitting does")
    return ck


# ------------------------------------------------------------------------------------------------ replay
def REPLAY(check_name, violation):
    inp = violation["input"]
    if isinstance(inp, str):
        inp = json.loads(inp)
    if check_name == "special_characters_tab_only_splitting":
        pin = SpecialPin.from_input(inp)
        if inp.get("cli"):
            with scratch("c19p_") as d:
                probs = run_special_case(pin, d, inp["cli"].get("as_path_objects", False))
        else:
            probs = run_special_case(pin)
        return {"violated": bool(probs), "detail": probs, "text": pin.text()}
    pin = Pin.from_input(inp)
    if check_name == "pin_to_tsv_lossless_idempotent":
        probs = run_converter_case(pin)
        return {"violated": bool(probs), "detail": probs, "text": pin.text()}
    if check_name == "cli_verify_step":
        second = Pin.from_input(inp["second"]) if inp.get("second") else None
        with scratch("c19p_") as d:
            probs = run_cli_case(d, pin, inp.get("stale", False), inp.get("as_path_objects", False), second)
        return {"violated": bool(probs), "detail": probs, "text": pin.text()}
    return {"violated": None, "note": "no replay for %s" % check_name}


def _timed(checks):
    """Check.wall_s counts from the creation of the Check to emit(): shift t0 so that it reports the check's own time."""
    import time
    done = []
    for fn, tier, seed in checks:
        t = time.time()
        ck = fn(tier, seed)
        done.append((ck, time.time() - t))
    for ck, elapsed in done:
        ck.t0 = time.time() - elapsed
    return [ck for ck, _ in done]


if __name__ == "__main__":
    a = args()
    emit(_timed([(check_converter, a.tier, a.seed), (check_cli, a.tier, a.seed),
                 (check_special, a.tier, a.seed)]),
         ["every file has at least one PSM row (is_valid_tsv on a header-only file raises StopIteration: outside "
          "the quantifier, recorded separately)",
          "fields are non-empty and carry no boundary whitespace (pin_to_valid_tsv strips every line); protein "
          "names contain no ':'",
          "special_characters check: fields never contain a TAB or a '\\n' (these are the separators of the format); "
          "the column name 'Proteins' itself is never rewritten (the column is found by this name); a carriage "
          "return or NEL inside a field is exercised on in-memory text streams only (a file opened in text mode "
          "turns '\\r' into a line break: outside the quantifier); a lone '\\r' is not a line end of the text stream",
          "the DefaultDirection line, when present, is the second line of the file",
          "the CLI step is the real `if config.verify_pin:` block executed outside main(): argument parsing and "
          "the later analysis are not run"])
