"""C19 bounded stand-in: PIN -> rectangular TSV conversion is lossless, order-preserving and idempotent.

Exhaustive small PIN texts are built from their parts (header fields, per-PSM field values and protein lists);
the expected output is assembled from these parts directly (the oracle never splits or joins the PIN text and
never calls the functions under test).  Real functions: mokapot.parsers.pin_to_tsv.pin_to_valid_tsv /
is_valid_tsv, and the verify step of the CLI: the `if config.verify_pin:` block is cut out of the real
mokapot/mokapot.py with `ast` at run time and executed on real files with a stub `config`.
"""
import ast
import io
import itertools
import json
import logging
import os
import shutil
import warnings

from harness.common import Check, args, emit, REPO
from harness.datasets import scratch

warnings.filterwarnings("ignore")
logging.disable(logging.CRITICAL)

SEP_PROT = ":"


# ------------------------------------------------------------------------------------------------ domain
class Pin:
    """One PIN text, described by its parts."""
    def __init__(self, n_feat, prot_pos, prot_counts, default_direction, trailing_newline):
        self.n_feat, self.prot_pos, self.prot_counts = n_feat, prot_pos, tuple(prot_counts)
        self.dd, self.nl = default_direction, trailing_newline
        self.other_cols = ["SpecId", "Label"] + ["feat%d" % k for k in range(n_feat)] + ["Peptide"]
        self.header = self.other_cols[:prot_pos] + ["Proteins"] + self.other_cols[prot_pos:]
        self.rows = []
        for r, n_prot in enumerate(self.prot_counts):
            vals = []
            for c, name in enumerate(self.other_cols):
                if name == "SpecId":
                    vals.append("target_0_%d_2_-1" % (100 + r))
                elif name == "Label":
                    vals.append("1" if r % 2 == 0 else "-1")
                elif name == "Peptide":
                    vals.append("K.PEP%dTIDE.R" % r)
                else:
                    vals.append("%d.%d5" % (r + 1, c))
            prots = ["sp|Q%d%d|PR%d_HUMAN" % (r, k, k) for k in range(n_prot)]
            self.rows.append((vals, prots))

    def key(self):
        return (self.n_feat, self.prot_pos, self.prot_counts, self.dd, self.nl)

    def as_input(self):
        return {"n_feat": self.n_feat, "prot_pos": self.prot_pos, "prot_counts": list(self.prot_counts),
                "default_direction": self.dd, "trailing_newline": self.nl}

    @staticmethod
    def from_input(i):
        return Pin(i["n_feat"], i["prot_pos"], i["prot_counts"], i["default_direction"], i["trailing_newline"])

    # the PIN text: proteins as a tab-separated list of variable length in the place of the protein column
    def text(self):
        lines = ["\t".join(self.header)]
        if self.dd:
            # 1: the form of the percolator documentation (no Peptide / Proteins entries, shorter than the header);
            # 2: padded to the width of the header (the file is rectangular but still has the line)
            dd = ["DefaultDirection", "-", "-"] + ["0.%d" % (k + 1) for k in range(self.n_feat)]
            if self.dd == 2:
                dd = (dd + ["-", "-"])[:len(self.header)]
            lines.append("\t".join(dd))
        for vals, prots in self.rows:
            lines.append("\t".join(vals[:self.prot_pos] + prots + vals[self.prot_pos:]))
        return "\n".join(lines) + ("\n" if self.nl else "")

    # ---- oracle, from the statement
    def expected_lines(self):
        out = [list(self.header)]
        for vals, prots in self.rows:
            out.append(vals[:self.prot_pos] + [SEP_PROT.join(prots)] + vals[self.prot_pos:])
        return out                                    # list of field lists

    def expected_valid(self):
        """valid exactly when all lines have as many fields as the header and there is no DefaultDirection line"""
        return (not self.dd) and all(len(prots) == 1 for _, prots in self.rows)

    def nontrivial(self):
        return self.dd or any(len(p) > 1 for _, p in self.rows)


def all_pins(tier):
    max_feat, max_rows = (2, 3) if tier == "quick" else (3, 4)
    for n_feat in range(0, max_feat + 1):
        for prot_pos in range(0, 3 + n_feat + 1):
            for n_rows in range(1, max_rows + 1):
                for counts in itertools.product((1, 2, 3), repeat=n_rows):
                    for dd in (0, 1, 2):
                        for nl in (False, True):
                            yield Pin(n_feat, prot_pos, counts, dd, nl)


def out_lines(text):
    """The table lines of an output text: one trailing newline is not a line."""
    lines = text.split("\n")
    if lines and lines[-1] == "":
        lines = lines[:-1]
    return [ln.split("\t") for ln in lines]


def judge_conversion(pin, got_text):
    """-> list of (class, text)"""
    exp = pin.expected_lines()
    got = out_lines(got_text)
    where = "last" if pin.prot_pos == len(pin.other_cols) else "not-last"
    if not got or got[0] != exp[0]:
        return [("header-changed", "header %r, expected %r" % (got[:1], exp[0]))]
    if any(ln and ln[0].startswith("DefaultDirection") for ln in got[1:]):
        return [("default-direction-kept", "output still holds a DefaultDirection line")]
    if len(got) != len(exp):
        return [("line-count-differs", "%d lines, expected %d (header + one per PSM)" % (len(got), len(exp)))]
    for r in range(1, len(exp)):
        if got[r] == exp[r]:
            continue
        if len(got[r]) != len(exp[r]):
            return [("protein-column-%s-not-rectangular" % where,
                     "PSM %d has %d fields, header has %d: %r" % (r - 1, len(got[r]), len(exp[r]), got[r]))]
        if got[r][pin.prot_pos] != exp[r][pin.prot_pos]:
            return [("protein-column-%s-wrong" % where, "PSM %d protein field %r, expected %r"
                     % (r - 1, got[r][pin.prot_pos], exp[r][pin.prot_pos]))]
        return [("non-protein-field-changed", "PSM %d fields %r, expected %r" % (r - 1, got[r], exp[r]))]
    return []


# ------------------------------------------------------------------------------------------------ converter
def run_converter_case(pin):
    from mokapot.parsers.pin_to_tsv import pin_to_valid_tsv, is_valid_tsv
    probs = []
    text = pin.text()
    # validity predicate on the PIN text itself
    try:
        v = is_valid_tsv(io.StringIO(text))
        if bool(v) != pin.expected_valid():
            probs.append(("is-valid-false-positive" if v else "is-valid-false-negative",
                          "is_valid_tsv(input) = %r, expected %r" % (v, pin.expected_valid())))
    except Exception as e:                                            # noqa: BLE001
        probs.append(("is-valid-raises-" + type(e).__name__, str(e)[:150]))
    # conversion
    try:
        out = io.StringIO()
        pin_to_valid_tsv(f_in=io.StringIO(text), f_out=out)
        converted = out.getvalue()
    except Exception as e:                                            # noqa: BLE001
        probs.append(("convert-raises-" + type(e).__name__, str(e)[:150]))
        return probs
    probs.extend(judge_conversion(pin, converted))
    # output recognised as valid
    try:
        if not is_valid_tsv(io.StringIO(converted)):
            probs.append(("output-not-valid", "is_valid_tsv(converted) is False"))
    except Exception as e:                                            # noqa: BLE001
        probs.append(("output-valid-raises-" + type(e).__name__, str(e)[:150]))
    # idempotent
    try:
        out2 = io.StringIO()
        pin_to_valid_tsv(f_in=io.StringIO(converted), f_out=out2)
        if out_lines(out2.getvalue()) != out_lines(converted):
            probs.append(("not-idempotent", "second conversion gives %r, first gave %r"
                          % (out2.getvalue()[:120], converted[:120])))
    except Exception as e:                                            # noqa: BLE001
        probs.append(("reconvert-raises-" + type(e).__name__, str(e)[:150]))
    return probs


def check_converter(tier, seed):
    mf, mr = (2, 3) if tier == "quick" else (3, 4)
    ck = Check("pin_to_tsv_lossless_idempotent",
               "mokapot.parsers.pin_to_tsv.pin_to_valid_tsv / is_valid_tsv (parse_pin_header_columns, "
               "convert_line_pin_to_tsv)",
               "exhaustive: PIN texts with SpecId, Label, 0..%d feature columns, Peptide and the Proteins column at "
               "every header position (first .. last), 1..%d PSM rows, every assignment of 1..3 proteins per row, "
               "without / with a DefaultDirection line (documented short form and a form padded to the header width), "
               "with/without trailing newline (in-memory text streams)"
               % (mf, mr),
               "oracle assembled from the parts of the text: same header, one line per PSM in order, non-protein "
               "fields unchanged, proteins joined by ':' in the protein column, no DefaultDirection line; "
               "is_valid_tsv(output); second conversion = first; is_valid_tsv(input) iff every row has one protein "
               "and there is no DefaultDirection line; non-trivial = a row with 2+ proteins or a DefaultDirection "
               "line (the conversion has to change something)")
    for pin in all_pins(tier):
        ck.case(pin.key(), nontrivial=pin.nontrivial())
        for cls, text in run_converter_case(pin):
            ck.violation(cls, text, pin.as_input())
    return ck


# ------------------------------------------------------------------------------------------------ CLI verify step
_VERIFY_CODE = None


def verify_block():
    """The `if config.verify_pin:` statement of mokapot.mokapot.main, compiled from the real source."""
    global _VERIFY_CODE
    if _VERIFY_CODE is None:
        path = os.path.join(REPO, "mokapot", "mokapot.py")
        tree = ast.parse(open(path).read(), filename=path)
        main = [n for n in tree.body if isinstance(n, ast.FunctionDef) and n.name == "main"][0]
        found = [n for n in ast.walk(main) if isinstance(n, ast.If)
                 and ast.unparse(n.test).replace(" ", "") == "config.verify_pin"]
        if len(found) != 1:
            raise RuntimeError("expected exactly one `if config.verify_pin:` block in %s, found %d"
                               % (path, len(found)))
        mod = ast.Module(body=[found[0]], type_ignores=[])
        _VERIFY_CODE = compile(mod, path, "exec")
    return _VERIFY_CODE


class _Stub:
    def __init__(self, **kw):
        self.__dict__.update(kw)


def run_verify_step(paths):
    import mokapot.parsers.pin_to_tsv as p2t
    quiet = _Stub(info=lambda *a, **k: None, debug=lambda *a, **k: None, warning=lambda *a, **k: None,
                  error=lambda *a, **k: None)
    ns = {"config": _Stub(verify_pin=True, psm_files=list(paths)), "logging": quiet, "shutil": shutil,
          "is_valid_tsv": p2t.is_valid_tsv, "pin_to_valid_tsv": p2t.pin_to_valid_tsv, "open": open}
    exec(verify_block(), ns)


JUNK = "junk-header\tx\njunk-line-1\ty\n"


def run_cli_case(d, pin, stale, as_path_objects, second=None):
    """Write the PIN text (and optionally a stale '<pin>.tsv'), run the real verify block, inspect the input file."""
    from pathlib import Path
    p = os.path.join(str(d), "in.pin")
    with open(p, "w", newline="") as f:
        f.write(pin.text())
    tsv = p + ".tsv"
    if os.path.exists(tsv):
        os.remove(tsv)
    if stale:
        with open(tsv, "w", newline="") as f:
            f.write(JUNK)
    files = [p]
    if second is not None:
        p2 = os.path.join(str(d), "in2.pin")
        with open(p2, "w", newline="") as f:
            f.write(second.text())
        if os.path.exists(p2 + ".tsv"):
            os.remove(p2 + ".tsv")
        files.append(p2)
    try:
        run_verify_step([Path(x) for x in files] if as_path_objects else files)
    except Exception as e:                                            # noqa: BLE001
        return [("cli-raises-" + type(e).__name__, str(e)[:200])]
    probs = []
    for path, pn in zip(files, [pin, second]):
        with open(path, newline="") as f:
            after = f.read()
        if pn.expected_valid():
            if after != pn.text():
                probs.append(("cli-valid-file-modified", "a valid file was rewritten: %r" % after[:150]))
            continue
        bad = judge_conversion(pn, after)
        if bad and stale and path == p and "junk" in after:
            probs.append(("stale-tsv-mixed-in", "input file holds the content of the stale '<pin>.tsv' mixed with "
                          "the converted table: %r" % after[:150]))
        else:
            probs.extend(("cli-" + c, t) for c, t in bad)
    return probs


def cli_pins(tier):
    """A deterministic sub-family for the file-based CLI step: every header shape, rows 1..2 exhaustive plus the
    3-row texts whose protein counts are strictly mixed."""
    for pin in all_pins(tier):
        n = len(pin.prot_counts)
        if n <= 2 or pin.prot_counts in ((1, 2, 3), (3, 1, 2), (2, 3, 1), (1, 1, 1), (3, 3, 3)):
            yield pin


def check_cli(tier, seed):
    ck = Check("cli_verify_step",
               "mokapot.mokapot.main: the `if config.verify_pin:` block (cut out of the real source with ast, run "
               "with a stub config) -> is_valid_tsv / pin_to_valid_tsv / shutil.move on real files",
               "exhaustive over the PIN texts of the converter check with 1..2 rows plus 5 protein-count patterns "
               "of 3 rows; each without and with a stale '<pin>.tsv' holding junk, psm_files given as str and as "
               "Path alternately; every 7th case with a second PSM file in the same call",
               "afterwards the input file holds exactly the expected converted table (or is byte-identical if it "
               "was already valid); non-trivial = the file needed conversion")
    with scratch("c19_") as d:
        for j, pin in enumerate(cli_pins(tier)):
            for stale in (False, True):
                second = None
                if j % 7 == 3:
                    second = Pin(1, 2, (2, 1), default_direction=j % 3, trailing_newline=True)
                ck.case((pin.key(), stale, second is not None), nontrivial=pin.nontrivial())
                for cls, text in run_cli_case(d, pin, stale, as_path_objects=(j % 2 == 0), second=second):
                    inp = pin.as_input()
                    inp.update({"stale": stale, "as_path_objects": j % 2 == 0,
                                "second": None if second is None else second.as_input()})
                    ck.violation(cls, text, inp)
    return ck


# ------------------------------------------------------------------------------------------------ replay
def REPLAY(check_name, violation):
    inp = violation["input"]
    if isinstance(inp, str):
        inp = json.loads(inp)
    pin = Pin.from_input(inp)
    if check_name == "pin_to_tsv_lossless_idempotent":
        probs = run_converter_case(pin)
        return {"violated": bool(probs), "detail": probs, "text": pin.text()}
    if check_name == "cli_verify_step":
        second = Pin.from_input(inp["second"]) if inp.get("second") else None
        with scratch("c19p_") as d:
            probs = run_cli_case(d, pin, inp.get("stale", False), inp.get("as_path_objects", False), second)
        return {"violated": bool(probs), "detail": probs, "text": pin.text()}
    return {"violated": None, "note": "no replay for %s" % check_name}


def _timed(checks):
    """Check.wall_s counts from the creation of the Check to emit(): shift t0 so that it reports the check's own time."""
    import time
    done = []
    for fn, tier, seed in checks:
        t = time.time()
        ck = fn(tier, seed)
        done.append((ck, time.time() - t))
    for ck, elapsed in done:
        ck.t0 = time.time() - elapsed
    return [ck for ck, _ in done]


if __name__ == "__main__":
    a = args()
    emit(_timed([(check_converter, a.tier, a.seed), (check_cli, a.tier, a.seed)]),
         ["every file has at least one PSM row (is_valid_tsv on a header-only file raises StopIteration: outside "
          "the quantifier, recorded separately)",
          "fields are non-empty and carry no boundary whitespace (pin_to_valid_tsv strips every line); protein "
          "names contain no ':'",
          "the DefaultDirection line, when present, is the second line of the file",
          "the CLI step is the real `if config.verify_pin:` block executed outside main(): argument parsing and "
          "the later analysis are not run"])
