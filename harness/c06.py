"""C06 bounded stand-in: PEP estimators and the alternative q-value estimators on random two-component mixtures.

  python -m harness.c06 --tier quick|thorough --seed N

Checked on the returned vectors only (no oracle for the numerical estimates themselves): one finite value per
PSM, range, monotone in the score, equal on ties, and alignment = permuting the input permutes the output.
"""
import os

for _v in ("OMP_NUM_THREADS", "OPENBLAS_NUM_THREADS", "MKL_NUM_THREADS"):   # one BLAS thread per worker process
    os.environ.setdefault(_v, "1")

import json                                   # noqa: E402
import logging                                # noqa: E402
import multiprocessing as mp                  # noqa: E402
import warnings                               # noqa: E402

import numpy as np                            # noqa: E402

from harness.common import Check, args, emit  # noqa: E402

warnings.filterwarnings("ignore")
logging.disable(logging.CRITICAL)

TOL = 1e-9
PEP_ALGS = ("qvality", "kde_nnls", "hist_nnls")
Q_ALGS = ("from_counts", "from_peps")


def _freeze(ck):
    res = ck.result()
    ck.result = lambda: res
    return ck


def _fn(est):
    """the real function behind an estimator name, looked up at call time"""
    if est in PEP_ALGS:
        import mokapot.peps as peps
        return lambda s, t: peps.peps_from_scores(s, t, est)
    import mokapot.qvalues as qv
    return {"from_counts": lambda s, t: qv.qvalues_from_counts(s, t),
            "from_peps": lambda s, t: qv.qvalues_from_peps(s, t)}[est]


# ----------------------------------------------------------------------------------------------------------
def gen_case(seed, k, big=False, hi=130):
    """Two-component mixture: decoys and incorrect targets ~ N(0,1), correct targets ~ N(mu, sd); >= 50 of each
    label; ties by rounding all / some of the scores; random input order."""
    rng = np.random.default_rng([seed, k])
    hi = 1500 if big else hi       # qvality costs O(n^3) below 500 PSMs: the quick tier stays under 260 PSMs
    nt, nd = int(rng.integers(50, hi)), int(rng.integers(50, hi))
    pi0 = float(rng.uniform(0.2, 0.9))
    mu = float(rng.uniform(1.0, 5.0))
    sd = float(rng.uniform(0.5, 1.5))
    loc, scale = float(rng.choice([0.0, -20.0, 3.0])), float(rng.choice([1.0, 1.0, 0.05, 40.0]))
    inc = rng.random(nt) < pi0
    t = np.where(inc, rng.normal(0, 1, nt), rng.normal(mu, sd, nt))
    d = rng.normal(0, 1, nd)
    s = np.concatenate([t, d])
    lab = np.concatenate([np.ones(nt, dtype=bool), np.zeros(nd, dtype=bool)])
    mode = k % 5
    if mode == 1:
        s = np.round(s, 1)
    elif mode == 2:
        s = np.where(rng.random(len(s)) < 0.4, np.round(s, 1), s)
    elif mode == 3:
        s = np.round(s, 2)
    elif mode == 4:                                   # the best PSM is a decoy
        s = np.append(s, s.max() + 0.5)
        lab = np.append(lab, False)
    s = s * scale + loc
    p = rng.permutation(len(s))
    perm = rng.permutation(len(s))
    return s[p].astype(float), lab[p], perm, {"n_targets": int(lab.sum()), "n_decoys": int((~lab).sum()),
                                              "mode": mode, "pi0": round(pi0, 3), "mu": round(mu, 3)}


def _same(a, b):
    return (a == b) | (np.abs(a - b) <= TOL)


def judge(est, s, lab, perm):
    """Run the real estimator on the input and on the permuted input. Returns (class id, what) or (None, None)."""
    f = _fn(est)
    is_pep = est in PEP_ALGS
    ties = len(np.unique(s)) < len(s)
    tag = "ties" if ties else "no-ties"
    try:
        r1 = np.asarray(f(s.copy(), lab.copy()), dtype=float)
        r2 = np.asarray(f(s[perm].copy(), lab[perm].copy()), dtype=float)
    except Exception as e:                               # noqa: BLE001
        return "exception:" + type(e).__name__, str(e)[:160]
    for r, ss in ((r1, s), (r2, s[perm])):
        if r.shape != ss.shape:
            return "length", "returned shape %r for %d PSMs" % (r.shape, len(ss))
        if np.any(np.isnan(r)) or np.any(r < 0):
            return "negative-or-nan", "a returned value is NaN or negative"
        if not np.all(np.isfinite(r)):
            if not is_pep and np.any(~lab[s == s.max()]):      # a decoy holds (or shares) the best score
                return ("non-finite/best-psm-is-decoy",
                        "q-values are infinite (%d of %d) when the best-scoring PSM is a decoy (FDR with zero targets)"
                        % (int(np.isinf(r).sum()), len(r)))
            return "non-finite", "a returned value is infinite"
        if is_pep and np.any(r > 1):
            return "out-of-range", "a PEP exceeds 1 (max %r)" % float(r.max())
        o = np.argsort(-ss, kind="stable")               # best score first
        rs, so = r[o], ss[o]
        worse = rs[1:] < rs[:-1] - TOL
        if np.any(worse):
            i = int(np.argmax(worse))
            return ("not-monotone/" + tag, "value drops from %r to %r as the score worsens from %r to %r"
                    % (float(rs[i]), float(rs[i + 1]), float(so[i]), float(so[i + 1])))
        tied = so[1:] == so[:-1]
        if np.any(tied & ~_same(rs[1:], rs[:-1])):
            return "ties-unequal", "equal scores receive different values"
    bad = ~_same(r2, r1[perm])
    if np.any(bad):
        return ("misaligned/" + tag,
                "permuting the input does not permute the output the same way: %d of %d values differ, max |diff| %.3g"
                % (int(bad.sum()), len(bad), float(np.nanmax(np.abs(np.where(bad, r2 - r1[perm], 0.0))))))
    return None, None


def _work(job):
    seed, k, big, hi, est = job
    s, lab, perm, meta = gen_case(seed, k, big, hi)
    ties = len(np.unique(s)) < len(s)
    return k, meta, ties, est, judge(est, s, lab, perm)


def runnable(est):
    """hist_nnls / from_peps need scipy.optimize.nnls(..., atol=): not available with the installed SciPy."""
    s, lab, _, _ = gen_case(12345, 1)
    try:
        _fn(est)(s, lab)
        return True, None
    except TypeError as e:
        return False, "TypeError: %s" % e
    except Exception:                                    # noqa: BLE001  (runs, but fails differently: judge it)
        return True, None


def run(tier, seed):
    n_cases = 60 if tier == "quick" else 600
    assumptions = ["no oracle for the numerical value of a PEP / q-value (KDE, splines, NNLS): only finiteness, range, "
                   "monotonicity, ties and alignment of the returned vectors are checked, tolerance %g" % TOL,
                   "input domain: two-component normal mixtures with >= 50 targets and >= 50 decoys, location/scale "
                   "variants, ties by rounding, every 5th case with a decoy as the best PSM"]
    ests = []
    for est in PEP_ALGS + Q_ALGS:
        ok, why = runnable(est)
        if ok:
            ests.append(est)
        else:
            assumptions.append("skipped %s: it cannot run under the installed SciPy (%s); nothing is claimed for it here"
                               % ({"hist_nnls": "peps_from_scores(..., 'hist_nnls')",
                                   "from_peps": "qvalues_from_peps"}.get(est, est), why))
    checks = {}
    for est in ests:
        fn = "mokapot.peps.peps_from_scores(..., %r)" % est if est in PEP_ALGS else "mokapot.qvalues.qvalues_%s" % est
        checks[est] = Check(
            ("pep_" if est in PEP_ALGS else "qvalues_") + est, fn,
            "random: %d mixtures (seed %d, case k uses numpy seed [seed, k]) with 50..%d targets and decoys each, "
            "each evaluated on the input and on one random permutation of it"
            % (n_cases, seed, 129 if tier == "quick" else 1499),
            ("one finite value in [0,1] per PSM, " if est in PEP_ALGS else "one finite non-negative value per PSM, ")
            + "never decreasing as the score worsens, equal for equal scores, result(permuted input) == permuted "
              "result; non-trivial = the scores contain ties (modes: no ties / all rounded to 0.1 / 40% rounded / all "
              "rounded to 0.01 / best PSM is a decoy)")
    # one job per (case, estimator); the slow estimator (qvality: 0.02 .. 5 s per call) is scheduled first
    hi = 130 if tier == "quick" else 260
    jobs = [(seed, k, tier != "quick" and k % 4 == 0, hi, est) for est in ests for k in range(n_cases)]
    with mp.get_context("fork").Pool(8) as pool:
        results = pool.map(_work, jobs, chunksize=1)
    seen = set()
    for k, meta, ties, est, (cid, what) in sorted(results, key=lambda r: (r[0], r[3])):
        if True:
            ck = checks[est]
            ck.case((seed, k, meta), nontrivial=ties)
            if cid and (est, cid) not in seen:
                seen.add((est, cid))
                ck.violation(cid, what, {"seed": seed, "k": k, "big": tier != "quick" and k % 4 == 0, "hi": hi,
                                         "estimator": est, **meta})
    return [_freeze(c) for c in checks.values()], assumptions


def REPLAY(check_name, violation):
    inp = violation["input"]
    if isinstance(inp, str):
        inp = json.loads(inp)
    s, lab, perm, _ = gen_case(inp["seed"], inp["k"], inp.get("big", False), inp.get("hi", 130))
    cid, what = judge(inp["estimator"], s, lab, perm)
    return {"violated": cid is not None, "case": cid, "detail": what}


if __name__ == "__main__":
    a = args()
    np.random.seed(a.seed)
    cks, assumptions = run(a.tier, a.seed)
    emit(cks, assumptions)
