"""C06 bounded stand-in: PEP estimators and the alternative q-value estimators on random two-component mixtures.

  python -m harness.c06 --tier quick|thorough --seed N

Checked on the returned vectors only (no oracle for the numerical estimates themselves): one finite value per
PSM, range, monotone in the score, equal on ties, and alignment = permuting the input permutes the output.
For the qvality algorithm alignment is additionally checked against triqler itself: the PSM holding the k-th best
score must carry the PEP that triqler.qvality.getQvaluesFromScores lists at rank k (qvality_reference); this runs on
the random mixtures and on extra inputs with planted tie groups (gen_tie_case).

The last clause of the property ("so the PEP column of every result file is aligned with its row") is checked on
the files written by assign_confidence (check pep_column_of_result_files), for a higher-is-better score
(descs=[True]) and a lower-is-better score (descs=[False]).  The same clause for the other result format, the SQLite
database written with assign_confidence(..., sqlite_path=...), is check pep_column_of_sqlite_result_tables
(harness/_c06_sqlite.py): the PEP, q-value and score stored under a row id in every level table must be that row's own.
"""
import os

for _v in ("OMP_NUM_THREADS", "OPENBLAS_NUM_THREADS", "MKL_NUM_THREADS"):   # one BLAS thread per worker process
    os.environ.setdefault(_v, "1")

import json                                   # noqa: E402
import logging                                # noqa: E402
import multiprocessing as mp                  # noqa: E402
import warnings                               # noqa: E402

import numpy as np                            # noqa: E402
import pandas as pd                           # noqa: E402

from harness.common import Check, args, emit  # noqa: E402
from harness.datasets import make_ds, scratch, small_df   # noqa: E402
from harness import _c06_sqlite as sq3        # noqa: E402

warnings.filterwarnings("ignore")
logging.disable(logging.CRITICAL)

TOL = 1e-9
PEP_ALGS = ("qvality", "kde_nnls", "hist_nnls")
Q_ALGS = ("from_counts", "from_peps")
FILE_CHECK = "pep_column_of_result_files"
FILE_ALGS = ("qvality", "kde_nnls")            # hist_nnls cannot run under the installed SciPy
FILE_SHAPES = ("one-psm-per-spectrum", "two-psms-per-spectrum", "one-psm-per-spectrum-ties",
               "two-psms-per-spectrum-ties")
# triqler's qvality needs up to 30 s per call for 300..500 distinct scores: not run on the large shape without ties
FILE_SKIP = {("two-psms-per-spectrum", "qvality")}
FILE_LEVELS = ("psms", "peptides")
SQL_CHECK = "pep_column_of_sqlite_result_tables"
MIN_ROWS = 50                                  # a level is judged if both its files have >= 50 rows (property domain)


def _freeze(ck):
    res = ck.result()
    ck.result = lambda: res
    return ck


def _fn(est):
    """the real function behind an estimator name, looked up at call time"""
    if est in PEP_ALGS:
        import mokapot.peps as peps
        return lambda s, t: peps.peps_from_scores(s, t, est)
    import mokapot.qvalues as qv
    return {"from_counts": lambda s, t: qv.qvalues_from_counts(s, t),
            "from_peps": lambda s, t: qv.qvalues_from_peps(s, t)}[est]


# ----------------------------------------------------------------------------------------------------------
def gen_case(seed, k, big=False, hi=130):
    """Two-component mixture: decoys and incorrect targets ~ N(0,1), correct targets ~ N(mu, sd); >= 50 of each
    label; ties by rounding all / some of the scores; random input order."""
    rng = np.random.default_rng([seed, k])
    hi = 1500 if big else hi       # qvality costs O(n^3) below 500 PSMs: the quick tier stays under 260 PSMs
    nt, nd = int(rng.integers(50, hi)), int(rng.integers(50, hi))
    pi0 = float(rng.uniform(0.2, 0.9))
    mu = float(rng.uniform(1.0, 5.0))
    sd = float(rng.uniform(0.5, 1.5))
    loc, scale = float(rng.choice([0.0, -20.0, 3.0])), float(rng.choice([1.0, 1.0, 0.05, 40.0]))
    inc = rng.random(nt) < pi0
    t = np.where(inc, rng.normal(0, 1, nt), rng.normal(mu, sd, nt))
    d = rng.normal(0, 1, nd)
    s = np.concatenate([t, d])
    lab = np.concatenate([np.ones(nt, dtype=bool), np.zeros(nd, dtype=bool)])
    mode = k % 5
    if mode == 1:
        s = np.round(s, 1)
    elif mode == 2:
        s = np.where(rng.random(len(s)) < 0.4, np.round(s, 1), s)
    elif mode == 3:
        s = np.round(s, 2)
    elif mode == 4:                                   # the best PSM is a decoy
        s = np.append(s, s.max() + 0.5)
        lab = np.append(lab, False)
    s = s * scale + loc
    p = rng.permutation(len(s))
    perm = rng.permutation(len(s))
    return s[p].astype(float), lab[p], perm, {"n_targets": int(lab.sum()), "n_decoys": int((~lab).sum()),
                                              "mode": mode, "pi0": round(pi0, 3), "mu": round(mu, 3)}


def _same(a, b):
    return (a == b) | (np.abs(a - b) <= TOL)


TIE_PATTERNS = ("top-group", "middle-group", "several-groups", "integer-scores", "duplicated-psms",
                "target-decoy-pairs", "half-unit-scores", "top-and-bottom-groups")
TIE_ORDERS = ("random", "best-first", "worst-first")
TIE_HI = 130                                   # planted-tie cases: 50..129 targets and decoys each, in both tiers


def gen_tie_case(seed, k, hi=130):
    """The mixture of gen_case with exactly equal scores planted by rank: one group of 2..8 PSMs at the very top / in
    the middle (starting at a rank between 1 and the number of correct targets, where the PEP still varies) / at top
    and bottom, 3..6 groups of 2..10 PSMs anywhere, scores rounded to integers or to 0.5 (5..20 distinct values),
    30..100% of the PSMs present twice, 5..20 target-decoy pairs sharing a score; input order random, best first
    (the order of the level files) or worst first."""
    rng = np.random.default_rng([seed, k, 616])
    pattern, order = TIE_PATTERNS[k % len(TIE_PATTERNS)], TIE_ORDERS[(k // len(TIE_PATTERNS)) % len(TIE_ORDERS)]
    nt, nd = int(rng.integers(50, hi)), int(rng.integers(50, hi))
    pi0, mu, sd = float(rng.uniform(0.2, 0.9)), float(rng.uniform(1.0, 5.0)), float(rng.uniform(0.5, 1.5))
    loc, scale = float(rng.choice([0.0, -20.0, 3.0])), float(rng.choice([1.0, 1.0, 0.05, 40.0]))
    inc = rng.random(nt) < pi0
    s = np.concatenate([np.where(inc, rng.normal(0, 1, nt), rng.normal(mu, sd, nt)), rng.normal(0, 1, nd)])
    lab = np.concatenate([np.ones(nt, dtype=bool), np.zeros(nd, dtype=bool)])
    n = len(s)
    o = np.argsort(-s, kind="stable")                     # o[r] = index of the PSM with rank r (best first)

    def plant(start, g):                                  # ranks start .. start+g-1 all get the score of rank start
        s[o[start:start + g]] = s[o[start]]

    if pattern == "top-group":
        plant(0, int(rng.integers(2, 9)))
    elif pattern == "middle-group":
        plant(int(rng.integers(1, max(2, int((~inc).sum())))), int(rng.integers(2, 9)))
    elif pattern == "top-and-bottom-groups":
        plant(0, int(rng.integers(2, 9)))
        g = int(rng.integers(2, 9))
        plant(n - g, g)
    elif pattern == "several-groups":
        m = int(rng.integers(3, 7))
        starts = np.sort(rng.choice(n // 10 - 1, m, replace=False)) * 10      # disjoint windows of 10 ranks
        for st in starts:
            plant(int(st), int(rng.integers(2, 11)))
    elif pattern == "integer-scores":
        s = np.round(s)
    elif pattern == "half-unit-scores":
        s = np.round(s * 2) / 2
    elif pattern == "duplicated-psms":
        twice = rng.random(n) < rng.uniform(0.3, 1.0)
        twice[rng.integers(n)] = True
        s, lab = np.concatenate([s, s[twice]]), np.concatenate([lab, lab[twice]])
    elif pattern == "target-decoy-pairs":
        m = int(rng.integers(5, 21))
        ti, di = rng.choice(nt, m, replace=False), nt + rng.choice(nd, m, replace=False)
        s[ti[::2]] = s[di[::2]]                           # every other pair: the target takes the decoy's score,
        s[di[1::2]] = s[ti[1::2]]                         # the rest: the decoy takes the target's score
    s = s * scale + loc
    if order == "random":
        p = rng.permutation(len(s))
    else:
        p = np.argsort(-s if order == "best-first" else s, kind="stable")
    perm = rng.permutation(len(s))
    return s[p].astype(float), lab[p], perm, {"gen": "ties", "pattern": pattern, "order": order,
                                              "n_targets": int(lab.sum()), "n_decoys": int((~lab).sum()),
                                              "n_distinct_scores": int(len(np.unique(s)))}


def qvality_reference(s, lab):
    """Independent of mokapot: triqler's qvality called directly with the target and the decoy scores sorted best
    first; with includeDecoys=True it returns one PEP per PSM for the merged scores in descending order, so the PSM
    with the k-th best score owns the k-th value. PSMs sharing a score occupy a run of ranks: each of them may carry
    any value triqler lists inside that run (they are equal anyway). Returns (lowest, highest) admissible PEP per
    PSM, in the order of s."""
    from triqler import qvality
    t, d = np.sort(s[lab])[::-1].copy(), np.sort(s[~lab])[::-1].copy()
    old, qvality.VERB = qvality.VERB, 0
    try:
        _, ref = qvality.getQvaluesFromScores(t, d, includeDecoys=True, includePEPs=True, tdcInput=False)
    except BaseException as e:                           # noqa: BLE001  (triqler may call sys.exit)
        raise RuntimeError("triqler reference failed: %s: %s" % (type(e).__name__, e))
    finally:
        qvality.VERB = old
    ref = np.asarray(ref, dtype=float)
    if ref.shape != s.shape:
        raise RuntimeError("triqler reference returned %r values for %d PSMs" % (ref.shape, len(s)))
    neg = np.sort(-s)                                     # the scores best first, negated (ascending)
    first, last = np.searchsorted(neg, -s, side="left"), np.searchsorted(neg, -s, side="right") - 1
    starts = np.flatnonzero(np.r_[True, neg[1:] != neg[:-1]])                # first rank of every run of equal scores
    run = np.searchsorted(starts, first, side="right") - 1
    assert np.all(starts[run] == first) and np.all(last >= first)
    return np.minimum.reduceat(ref, starts)[run], np.maximum.reduceat(ref, starts)[run]


def judge(est, s, lab, perm):
    """Run the real estimator on the input and on the permuted input. Returns (class id, what) or (None, None)."""
    f = _fn(est)
    is_pep = est in PEP_ALGS
    ties = len(np.unique(s)) < len(s)
    tag = "ties" if ties else "no-ties"
    try:
        r1 = np.asarray(f(s.copy(), lab.copy()), dtype=float)
        r2 = np.asarray(f(s[perm].copy(), lab[perm].copy()), dtype=float)
    except KeyboardInterrupt:
        raise
    except BaseException as e:                           # noqa: BLE001  (triqler may call sys.exit)
        return "exception:" + type(e).__name__, str(e)[:160]
    for r, ss in ((r1, s), (r2, s[perm])):
        if r.shape != ss.shape:
            return "length", "returned shape %r for %d PSMs" % (r.shape, len(ss))
        if np.any(np.isnan(r)) or np.any(r < 0):
            return "negative-or-nan", "a returned value is NaN or negative"
        if not np.all(np.isfinite(r)):
            if not is_pep and np.any(~lab[s == s.max()]):      # a decoy holds (or shares) the best score
                return ("non-finite/best-psm-is-decoy",
                        "q-values are infinite (%d of %d) when the best-scoring PSM is a decoy (FDR with zero targets)"
                        % (int(np.isinf(r).sum()), len(r)))
            return "non-finite", "a returned value is infinite"
        if is_pep and np.any(r > 1):
            return "out-of-range", "a PEP exceeds 1 (max %r)" % float(r.max())
        o = np.argsort(-ss, kind="stable")               # best score first
        rs, so = r[o], ss[o]
        worse = rs[1:] < rs[:-1] - TOL
        if np.any(worse):
            i = int(np.argmax(worse))
            return ("not-monotone/" + tag, "value drops from %r to %r as the score worsens from %r to %r"
                    % (float(rs[i]), float(rs[i + 1]), float(so[i]), float(so[i + 1])))
        tied = so[1:] == so[:-1]
        if np.any(tied & ~_same(rs[1:], rs[:-1])):
            return "ties-unequal", "equal scores receive different values"
    bad = ~_same(r2, r1[perm])
    if np.any(bad):
        return ("misaligned/" + tag,
                "permuting the input does not permute the output the same way: %d of %d values differ, max |diff| %.3g"
                % (int(bad.sum()), len(bad), float(np.nanmax(np.abs(np.where(bad, r2 - r1[perm], 0.0))))))
    if est == "qvality":                                 # alignment by rank against triqler's own output
        lo, hi = qvality_reference(s, lab)
        bad = (r1 < lo - TOL) | (r1 > hi + TOL)
        if np.any(bad):
            o = np.argsort(-s, kind="stable")
            i = int(o[np.argmax(bad[o])])                # the best-scoring PSM that is wrong
            return ("not-qvality-pep-of-own-rank/" + tag,
                    "%d of %d PSMs do not carry the PEP triqler's qvality lists for the rank of their score (scores "
                    "merged best first), max |diff| %.3g; best-scoring such PSM: score %r, rank %d, PEP %r, triqler %r"
                    % (int(bad.sum()), len(bad), float(np.max(np.abs(r1 - np.clip(r1, lo, hi)))), float(s[i]),
                       int((s > s[i]).sum()), float(r1[i]), float(lo[i])))
    return None, None


def _work(job):
    seed, k, big, hi, est = job
    if big == "ties":
        s, lab, perm, meta = gen_tie_case(seed, k, hi)
    else:
        s, lab, perm, meta = gen_case(seed, k, big, hi)
    ties = len(np.unique(s)) < len(s)
    return k, meta, ties, est, judge(est, s, lab, perm)


def runnable(est):
    """hist_nnls / from_peps need scipy.optimize.nnls(..., atol=): not available with the installed SciPy."""
    s, lab, _, _ = gen_case(12345, 1)
    try:
        _fn(est)(s, lab)
        return True, None
    except TypeError as e:
        return False, "TypeError: %s" % e
    except Exception:                                    # noqa: BLE001  (runs, but fails differently: judge it)
        return True, None


# ----------------------------------------------------------------------------------------------------------
# the PEP column of the result files written by assign_confidence
def gen_file_case(seed, k, shape):
    """A PIN-like table (harness.datasets.small_df: f0 separates targets from decoys). Shapes without ties: 120..200
    spectra with one PSM each, or 400..600 spectra with two competing PSMs each; shapes with ties: 240..400 / 400..600
    spectra and f0 rounded to one decimal. Returns (table, f0)."""
    rng = np.random.default_rng([seed, k, 606])
    dup = 2 if shape.startswith("two") else 1
    lo, hi = (400, 600) if dup == 2 else (240, 400) if shape.endswith("ties") else (120, 200)
    n_spec = int(rng.integers(lo, hi + 1))
    n_pep = int(n_spec * dup * 0.8)
    n_pep += n_pep % 7 == 0                     # small_df strides the peptide ids by 7: keep all n_pep ids reachable
    df = small_df(n_spec=n_spec, dup=dup, seed=[seed, k, 607], n_pep=n_pep)
    if shape.endswith("ties"):
        df["f0"] = df["f0"].round(1)
    return df, df["f0"].to_numpy(dtype=float)


def judge_files(seed, k, shape, desc, alg):
    """Run the real assign_confidence (deduplication on, decoys=True) with the informative feature (desc=True) or
    its negation, a lower-is-better score (desc=False), and read the written files back.
    Returns (list of (class id, what), non-trivial?, meta)."""
    from mokapot import assign_confidence
    import mokapot.peps as peps
    df, f0 = gen_file_case(seed, k, shape)
    score = f0 if desc else -f0
    tag = "desc-true" if desc else "desc-false"
    found, nontrivial, judged, meta = [], False, 0, {"n_psms_in": int(len(df))}
    with scratch("h06_") as d:
        ds = make_ds(df, d / "in.pin")
        out = d / "out"
        out.mkdir()
        try:
            assign_confidence([ds], max_workers=1, scores=[score.copy()], descs=[desc], dest_dir=out,
                              prefixes=[None], decoys=True, eval_fdr=0.05, deduplication=True,
                              peps_algorithm=alg)
        except BaseException as e:                       # noqa: BLE001  (triqler may call sys.exit)
            return [("result-file-exception:%s/%s" % (type(e).__name__, tag), str(e)[:160])], False, meta
        for level in FILE_LEVELS:
            parts = []
            for kind in ("targets", "decoys"):
                f = out / ("%s.%s" % (kind, level))
                try:
                    t = pd.read_csv(f, sep="\t")
                    t = t[["score", "posterior_error_prob"]].assign(is_target=(kind == "targets"))
                except Exception as e:                   # noqa: BLE001
                    found.append(("result-file-unreadable/" + tag, "%s.%s: %s: %s"
                                  % (kind, level, type(e).__name__, str(e)[:120])))
                    continue
                parts.append(t)
            if len(parts) < 2:
                continue
            al = pd.concat(parts, ignore_index=True)
            meta[level] = {"targets": int(len(parts[0])), "decoys": int(len(parts[1]))}
            if len(parts[0]) == 0 or len(parts[1]) == 0:
                found.append(("result-file-empty/" + tag, "no rows in targets.%s or decoys.%s" % (level, level)))
                continue
            if min(len(parts[0]), len(parts[1])) < MIN_ROWS:     # outside the quantifier domain of the property
                meta[level]["judged"] = False
                continue
            judged += 1
            s = pd.to_numeric(al["score"], errors="coerce").to_numpy(dtype=float)
            p = pd.to_numeric(al["posterior_error_prob"], errors="coerce").to_numpy(dtype=float)
            lab = al["is_target"].to_numpy(dtype=bool)
            if not np.all(np.isfinite(p)):
                found.append(("result-file-pep-non-finite/" + tag, "%s: %d of %d written PEPs are not finite"
                              % (level, int((~np.isfinite(p)).sum()), len(p))))
                continue
            if p.min() < 0 or p.max() > 1:
                found.append(("result-file-pep-out-of-range/" + tag, "%s: written PEPs span [%r, %r]"
                              % (level, float(p.min()), float(p.max()))))
            if len(np.unique(p)) > 1:
                nontrivial = True                        # (only levels inside the domain get here)
            # the written score column is the score as passed in; higher is better iff desc
            better = s if desc else -s
            o = np.argsort(-better, kind="stable")           # best first
            ps, so = p[o], s[o]
            worse = ps[1:] < ps[:-1] - TOL
            if np.any(worse):
                i = int(np.argmax(worse))
                found.append(("result-file-pep-not-monotone/" + tag,
                              "%s (targets+decoys files): the written PEP drops %d times as the written score worsens, "
                              "e.g. from %r to %r as the score goes from %r to %r; best row (score %r) has PEP %r, "
                              "worst row (score %r) has PEP %r"
                              % (level, int(worse.sum()), float(ps[i]), float(ps[i + 1]), float(so[i]),
                                 float(so[i + 1]), float(so[0]), float(ps[0]), float(so[-1]), float(ps[-1]))))
            # alignment: the PEP the estimator assigns to this row's sign-corrected score among exactly these rows
            try:
                want = np.asarray(peps.peps_from_scores(better.copy(), lab.copy(), alg), dtype=float)
            except BaseException as e:                   # noqa: BLE001
                found.append(("result-file-recompute-exception:%s/%s" % (type(e).__name__, tag),
                              "%s: %s" % (level, str(e)[:120])))
                continue
            bad = ~_same(p, want)
            if np.any(bad):
                i = int(np.argmax(bad))
                found.append(("result-file-pep-misaligned/" + tag,
                              "%s: %d of %d rows do not carry the PEP that peps_from_scores(%s) gives their own "
                              "(sign-corrected) score among the rows of the level, max |diff| %.3g; e.g. the %s row "
                              "with score %r has PEP %r, recomputed %r"
                              % (level, int(bad.sum()), len(bad), alg, float(np.max(np.abs(p - want))),
                                 "target" if lab[i] else "decoy", float(s[i]), float(p[i]), float(want[i]))))
    meta["levels_judged"] = judged
    return found, nontrivial, meta


def _work_files(job):
    seed, k, shape, desc, alg = job
    return ("files", job) + judge_files(seed, k, shape, desc, alg)


def sqlite_jobs(tier, seed):
    """kde_nnls: table k asks for the rollup levels LEVEL_SETS[k mod 4], one / two PSMs per spectrum (k mod 8 < 4 /
    >= 4), ties for (k div 2) odd; qvality: small one-PSM tables with the peptide level. descs=[False] for k mod 3 == 1;
    the database also receives the decoys for (k + k div 4) even."""
    n_kde, n_qv = (8, 6) if tier == "quick" else (64, 48)
    return [("sqlite", (seed, k, k % 3 != 1, alg, (k + k // 4) % 2 == 0))
            for alg, n in (("kde_nnls", n_kde), ("qvality", n_qv)) for k in range(n)]


def _work_sqlite(job):
    return ("sqlite", job) + sq3.judge_sqlite(*job, qvality_reference=qvality_reference)


def _dispatch(job):
    if job[0] == "sqlite":
        return _work_sqlite(job[1])
    return _work_files(job[1]) if job[0] == "files" else _work(job[1])


def run(tier, seed):
    n_cases = 60 if tier == "quick" else 600
    n_tie = 24 if tier == "quick" else 240       # planted tie groups, qvality only (the estimator with a reference)
    assumptions = ["no oracle for the numerical value of a PEP / q-value (KDE, splines, NNLS): only finiteness, range, "
                   "monotonicity, ties and alignment of the returned vectors are checked, tolerance %g" % TOL,
                   "input domain: two-component normal mixtures with >= 50 targets and >= 50 decoys, location/scale "
                   "variants, ties by rounding, every 5th case with a decoy as the best PSM",
                   "pep_qvality: the reference for 'the PEP belongs to the PSM' is triqler.qvality."
                   "getQvaluesFromScores called directly by the harness (targets and decoys sorted best first, "
                   "includeDecoys=True, includePEPs=True, tdcInput=False) and read by rank; triqler itself (the "
                   "spline fit) is trusted, "
                   "what is checked is that mokapot hands every PSM the value of its own rank. kde_nnls has no such "
                   "reference here"]
    ests = []
    for est in PEP_ALGS + Q_ALGS:
        ok, why = runnable(est)
        if ok:
            ests.append(est)
        else:
            assumptions.append("skipped %s: it cannot run under the installed SciPy (%s); nothing is claimed for it here"
                               % ({"hist_nnls": "peps_from_scores(..., 'hist_nnls')",
                                   "from_peps": "qvalues_from_peps"}.get(est, est), why))
    checks = {}
    for est in ests:
        fn = "mokapot.peps.peps_from_scores(..., %r)" % est if est in PEP_ALGS else "mokapot.qvalues.qvalues_%s" % est
        checks[est] = Check(
            ("pep_" if est in PEP_ALGS else "qvalues_") + est, fn,
            "random: %d mixtures (seed %d, case k uses numpy seed [seed, k]) with 50..%d targets and decoys each, "
            "each evaluated on the input and on one random permutation of it"
            % (n_cases, seed, 129 if tier == "quick" else 1499),
            ("one finite value in [0,1] per PSM, " if est in PEP_ALGS else "one finite non-negative value per PSM, ")
            + "never decreasing as the score worsens, equal for equal scores, result(permuted input) == permuted "
              "result; non-trivial = the scores contain ties (modes: no ties / all rounded to 0.1 / 40% rounded / all "
              "rounded to 0.01 / best PSM is a decoy)")
    if "qvality" in checks:
        ck = checks["qvality"]
        ck.bound += ("; plus %d mixtures with planted tie groups (case k uses numpy seed [seed, k, 616]; 50..%d "
                     "targets and decoys each, up to twice as many in the duplicated-psms pattern; patterns, k mod 8: "
                     "%s; input order, (k div 8) mod 3: random / best first / worst first)"
                     % (n_tie, TIE_HI - 1, " / ".join(TIE_PATTERNS)))
        ck.rule += ("; on every case (mixtures and planted ties) additionally: the PEP of a PSM equals, within 1e-9, a "
                    "value that triqler's qvality, called directly, lists at one of the ranks its score occupies when "
                    "all scores are merged best first (equal scores occupy a run of ranks). Planted patterns: one "
                    "group of 2..8 equal scores at the top / in the middle (start rank 1..number of correct "
                    "targets) / at top and bottom, 3..6 groups of 2..10 at ranks anywhere, "
                    "scores rounded to integers / to 0.5, 30..100% of the PSMs duplicated, 5..20 target-decoy "
                    "pairs sharing a score")
    # one job per (case, estimator); the slow estimator (qvality: 0.02 .. 5 s per call) is scheduled first
    hi = 130 if tier == "quick" else 260
    jobs = [("est", (seed, k, tier != "quick" and k % 4 == 0, hi, est)) for est in ests for k in range(n_cases)]
    if "qvality" in ests:
        jobs += [("est", (seed, k, "ties", TIE_HI, "qvality")) for k in range(n_tie)]
    # the result files of assign_confidence: n_file data sets x 3 shapes x desc x 2 PEP algorithms
    n_file = 5 if tier == "quick" else 40
    file_jobs = [("files", (seed, k, shape, desc, alg)) for alg in FILE_ALGS for k in range(n_file)
                 for shape in FILE_SHAPES for desc in (True, False) if (shape, alg) not in FILE_SKIP]
    n_slow = sum(j[1][4] == "qvality" for j in file_jobs)          # scheduled first
    fck = Check(
        FILE_CHECK, "mokapot.confidence.assign_confidence -> targets/decoys .psms/.peptides (posterior_error_prob)",
        "random: %d tables (seed %d, table k uses numpy seeds [seed, k, 606/607]) in 4 shapes (120..200 spectra with "
        "one PSM each / 400..600 spectra with two competing PSMs each / 240..400 spectra, one PSM each, f0 rounded to "
        "0.1 / 400..600 spectra, two PSMs each, f0 rounded to 0.1), each run with descs=[True] on f0 and descs=[False] "
        "on -f0, peps_algorithm kde_nnls (all shapes) and qvality (all but the second shape: too slow), deduplication "
        "on, decoys=True: %d runs, 4 files each; a level is judged when both its files have >= %d rows"
        % (n_file * len(FILE_SHAPES), seed, len(file_jobs), MIN_ROWS),
        "per level (targets+decoys file together): every written PEP finite and in [0,1]; the written PEP never "
        "decreases as the written score worsens (score falls for desc=True, rises for desc=False); the PEP of a row "
        "equals, within 1e-9, what peps_from_scores assigns to that row's sign-corrected score when called on exactly "
        "the rows of the level. Which rows are in the files and their q-values are NOT checked (C07). non-trivial = "
        "the PEP column of at least one level takes more than one value, so its orientation is observable")
    assumptions.append("%s: the recomputation calls mokapot.peps.peps_from_scores itself (no independent PEP oracle), "
                       "so this check sees misalignment / wrong orientation between the files and the estimator, not "
                       "errors of the estimator (those are the pep_* checks); with descs=[False] the rows chosen by "
                       "deduplication and the q-values follow the high-score-first ranking (property C07) and are not "
                       "judged here" % FILE_CHECK)
    sql_jobs = sqlite_jobs(tier, seed)
    n_sql = {alg: sum(j[1][3] == alg for j in sql_jobs) for alg in FILE_ALGS}
    sck = Check(
        SQL_CHECK, "mokapot.confidence.assign_confidence(..., sqlite_path=db) -> mokapot.confidence_writer."
        "ConfidenceSqliteWriter -> tables CANDIDATE / PRECURSOR_VALIDATION / MODIFIED_PEPTIDE_VALIDATION / "
        "PEPTIDE_VALIDATION / PEPTIDE_GROUP_VALIDATION",
        "random: %d tables (seed %d, table k uses numpy seed [seed, k, 660]; integer ids, decoy ids apart from target "
        "ids), each run twice through assign_confidence (deduplication on): once to the text files (decoys=True) and "
        "once to a SQLite database prepared by the harness (decoys=True for (k + k div 4) even, else targets only); "
        "descs=[False] on -f0 for k mod 3 == 1, else descs=[True] on f0. %d tables with peps_algorithm=kde_nnls: "
        "260..360 spectra with one PSM (k mod 8 < 4) or a competing target and decoy PSM each, f0 rounded to 0.1 for "
        "(k div 2) odd, rollup levels by k mod 4: peptides / precursors+peptides / modifiedpeptides+peptides+"
        "peptidegroups / all four. %d tables with qvality: 130..180 spectra with one PSM each, level peptides. A level "
        "is judged when both its text files have >= %d rows"
        % (len(sql_jobs), seed, n_sql["kde_nnls"], n_sql["qvality"], MIN_ROWS),
        "per judged level table (the PSM level is the rows of CANDIDATE that received a value): every stored PEP "
        "finite and in [0,1], never decreasing as the stored score worsens, equal for equal stored scores; the ids "
        "in the table are the ids of the targets (+ decoys) text file of the level, and the PEP, the q-value (FDR) and "
        "the score stored under an id equal, within 1e-9, the values the text files list for that id; for qvality "
        "with the decoys in the database additionally: the stored PEP is a value triqler's qvality, called directly, "
        "lists at a rank of the row's score among the rows of the table (row labels known from the ids). Which rows "
        "belong to a level and the values of the q-values themselves are NOT checked (C07). non-trivial = a judged "
        "rollup-level table (not CANDIDATE) whose PEPs take more than one value and differ from its q-values")
    assumptions.append("%s: the row's own PEP / q-value / score is taken from the text result files of a second run of "
                       "the same data set (written by the tabular writer, not by the SQLite writer; their alignment "
                       "with the estimator is check %s); the database schema is the one of mokapot's own unit test "
                       "(tests/unit_tests/test_writer_sqlite.py), created and pre-filled (CANDIDATE ids) by the "
                       "harness; only qvality has a reference that is independent of mokapot (triqler by rank)"
                       % (SQL_CHECK, FILE_CHECK))
    with mp.get_context("fork").Pool(12) as pool:
        allres = pool.map(_dispatch, file_jobs[:n_slow] + sql_jobs + jobs + file_jobs[n_slow:], chunksize=1)
    sseen = set()
    for _, job, found, nontrivial, meta in [r for r in allres if r[0] == "sqlite"]:
        _, k, desc, alg, sql_decoys = job
        sck.case((seed, k, desc, alg, sql_decoys), nontrivial=nontrivial)
        for cid, what in found:
            if cid not in sseen:
                sseen.add(cid)
                sck.violation(cid, what, {"seed": seed, "k": k, "desc": desc, "peps_algorithm": alg,
                                          "sqlite_decoys": sql_decoys, **meta})
    allres = [r for r in allres if r[0] != "sqlite"]
    results = [r for r in allres if r[0] != "files"]
    fseen = set()
    for _, job, found, nontrivial, meta in [r for r in allres if r[0] == "files"]:
        _, k, shape, desc, alg = job
        fck.case((seed, k, shape, desc, alg), nontrivial=nontrivial)
        for cid, what in found:
            if cid not in fseen:
                fseen.add(cid)
                fck.violation(cid, what, {"seed": seed, "k": k, "shape": shape, "desc": desc, "peps_algorithm": alg,
                                          **meta})
    seen = set()
    planted = [r for r in results if r[1].get("gen") == "ties"]
    results = [r for r in results if r[1].get("gen") != "ties"]
    for k, meta, ties, est, (cid, what) in sorted(results, key=lambda r: (r[0], r[3])):
        if True:
            ck = checks[est]
            ck.case((seed, k, meta), nontrivial=ties)
            if cid and (est, cid) not in seen:
                seen.add((est, cid))
                ck.violation(cid, what, {"seed": seed, "k": k, "big": tier != "quick" and k % 4 == 0, "hi": hi,
                                         "estimator": est, **meta})
    for k, meta, ties, est, (cid, what) in sorted(planted, key=lambda r: r[0]):
        ck = checks[est]
        ck.case((seed, "ties", k, meta), nontrivial=ties)
        if cid and (est, cid) not in seen:
            seen.add((est, cid))
            ck.violation(cid, what, {"seed": seed, "k": k, "hi": TIE_HI, "estimator": est, **meta})
    return [_freeze(c) for c in list(checks.values()) + [fck, sck]], assumptions


def REPLAY(check_name, violation):
    inp = violation["input"]
    if isinstance(inp, str):
        inp = json.loads(inp)
    if check_name == FILE_CHECK:
        found, _, _ = judge_files(inp["seed"], inp["k"], inp["shape"], inp["desc"], inp["peps_algorithm"])
        same = [f for f in found if f[0] == violation.get("case")] or found
        return {"violated": bool(found), "case": same[0][0] if same else None,
                "detail": same[0][1] if same else None, "all_cases": [f[0] for f in found]}
    if check_name == SQL_CHECK:
        found, _, _ = sq3.judge_sqlite(inp["seed"], inp["k"], inp["desc"], inp["peps_algorithm"], inp["sqlite_decoys"],
                                        qvality_reference=qvality_reference)
        same = [f for f in found if f[0] == violation.get("case")] or found
        return {"violated": bool(found), "case": same[0][0] if same else None,
                "detail": same[0][1] if same else None, "all_cases": [f[0] for f in found]}
    if inp.get("gen") == "ties":
        s, lab, perm, _ = gen_tie_case(inp["seed"], inp["k"], inp.get("hi", 130))
    else:
        s, lab, perm, _ = gen_case(inp["seed"], inp["k"], inp.get("big", False), inp.get("hi", 130))
    cid, what = judge(inp["estimator"], s, lab, perm)
    return {"violated": cid is not None, "case": cid, "detail": what}


if __name__ == "__main__":
    a = args()
    np.random.seed(a.seed)
    cks, assumptions = run(a.tier, a.seed)
    emit(cks, assumptions)
