"""C09 bounded stand-in: the results of a successful run depend on its inputs only, not on leftovers of earlier runs.

The observed call of `mokapot.confidence.assign_confidence` is executed twice: in a clean destination directory
and in a directory prepared with leftovers (fabricated stale files, or the debris of earlier runs that were made to
fail at the i-th write/append/unlink call).  Oracle = the property: byte-identical result files, and after the
successful run no intermediate file *of that run* (its `<prefix>scores_metadata_<k>` chunk files, its level files)
remains; files of other runs that this run never writes may stay.  The CLI verify step (`if config.verify_pin:` block
of mokapot/mokapot.py) is extracted with `ast` and executed with stub `config` / `logging` objects.  The stand-alone
rollup tool (`mokapot.brew_rollup.main`) is run with the directory it reads and writes spelled in different ways, with
result files of earlier rollups lying in it; oracle = an independent rollup of the genuine input tables only."""
import ast
import json
import logging
import os
import random
import shutil
import warnings
from pathlib import Path

for _v in ("OMP_NUM_THREADS", "OPENBLAS_NUM_THREADS", "MKL_NUM_THREADS", "NUMBA_NUM_THREADS"):
    os.environ.setdefault(_v, "1")

import numpy as np
import pandas as pd

from harness.common import Check, args, emit, REPO
from harness.datasets import scratch, small_df, make_ds

logging.disable(logging.CRITICAL)
warnings.filterwarnings("ignore")

WORKERS = 8
_WARM = []


def _warm_up():
    """numba compiles mokapot.qvalues._fdr2qvalue at its first call (~3 s): do it once, before forking"""
    if not _WARM:
        from mokapot.qvalues import tdc
        tdc(np.array([3.0, 2.0, 1.0]), np.array([True, False, True]))
        _WARM.append(1)


def _pool_map(fn, items):
    import multiprocessing as mp
    _warm_up()
    if WORKERS <= 1 or len(items) < 4:
        return [fn(c) for c in items]
    with mp.get_context("fork").Pool(WORKERS) as pool:
        return pool.map(fn, items, chunksize=1)


class ClassCheck(Check):
    """one violation per case id (first input met) with the number of cases in the class"""
    def __init__(self, *a):
        super().__init__(*a)
        self.classes = {}

    def violation(self, case, what, inputs):
        if case not in self.classes:
            self.classes[case] = [0, what, inputs]
        self.classes[case][0] += 1

    def result(self):
        self.violations = []
        for case, (cnt, what, inputs) in self.classes.items():
            Check.violation(self, case, "%s  [%d case(s) in this class]" % (what, cnt), inputs)
        return super().result()


# ------------------------------------------------------------------------------------------ runs
class Interrupted(BaseException):
    """injected fault that no `except Exception` can swallow (a kill / KeyboardInterrupt-like interruption)"""


class InjectedIOError(OSError):
    """injected fault of the ordinary kind (disk full, permission denied)"""


def table(seed, n_spec, dup=2, id0=0):
    """n_spec*dup PSMs, tie-free scores; SpecId / ScanNr ranges of different seeds do not overlap"""
    df = small_df(n_spec=n_spec, dup=dup, seed=seed, n_pep=max(5, n_spec // 2))
    df["SpecId"] += id0
    df["ScanNr"] += id0
    df["ExpMass"] += id0
    rng = np.random.default_rng(seed + 17)
    sc = df["f0"].values + rng.normal(0, 0.5, len(df))
    return df, sc


def run_spec(seed, n_spec, chunk, prefix, fmt, dedup=True, rollup=True, id0=0, must_succeed=True):
    """description of one assign_confidence call.  For observed runs (must_succeed) the table seed is advanced (by
    1000) until the call succeeds in a clean directory: on some small tables triqler's PEP estimation gives up,
    which is not the subject here.  Earlier runs of a history may fail on their own account as well."""
    spec = dict(seed=seed, n_spec=n_spec, chunk=chunk, prefix=prefix, fmt=fmt, dedup=dedup, rollup=rollup, id0=id0)
    if not must_succeed:
        return spec
    key = json.dumps([seed, n_spec, dedup, rollup, fmt])
    if key not in _USABLE:
        _warm_up()
        for k in range(50):
            trial = dict(spec, seed=seed + 1000 * k)
            with scratch("c09u_") as d:
                (Path(d) / "i").mkdir()
                (Path(d) / "o").mkdir()
                try:
                    do_run(trial, Path(d) / "o", Path(d) / "i")
                    break
                except BaseException:
                    continue
        _USABLE[key] = trial["seed"]
    spec["seed"] = _USABLE[key]
    return spec


_USABLE = {}


def do_run(spec, dest, inputs_dir):
    """one real assign_confidence call described by spec, writing into dest"""
    import mokapot.confidence as conf
    df, sc = table(spec["seed"], spec["n_spec"], id0=spec["id0"])
    ds = make_ds(df, Path(inputs_dir) / ("in_%d_%d%s" % (spec["seed"], spec["n_spec"], spec["fmt"])))
    saved = conf.CONFIDENCE_CHUNK_SIZE
    conf.CONFIDENCE_CHUNK_SIZE = spec["chunk"]
    try:
        conf.assign_confidence(psms=[ds], max_workers=1, scores=[np.array(sc, dtype=float)], descs=[True],
                               eval_fdr=0.2, dest_dir=Path(dest), prefixes=[spec["prefix"]], decoys=True,
                               deduplication=spec["dedup"], do_rollup=spec["rollup"], rng=1)
    finally:
        conf.CONFIDENCE_CHUNK_SIZE = saved


def intermediates(spec):
    """names of the intermediate files the run described by spec writes (property: none may remain)"""
    n = spec["n_spec"] * 2
    pre = (spec["prefix"] + ".") if spec["prefix"] else ""
    names = {"%sscores_metadata_%d%s" % (pre, k, spec["fmt"]) for k in range(-(-n // spec["chunk"]))}
    names.add("psms" + spec["fmt"])
    if spec["rollup"]:
        names.add("peptides" + spec["fmt"])
    return names


def result_names(spec):
    pre = (spec["prefix"] + ".") if spec["prefix"] else ""
    levels = ["psms"] + (["peptides"] if spec["rollup"] else [])
    return {"%s%s.%s" % (pre, kind, lev) for kind in ("targets", "decoys") for lev in levels}


def snapshot(d):
    return {name: (Path(d) / name).read_bytes() for name in sorted(os.listdir(d))}


def judge(spec, clean, before, after):
    """clean: snapshot of the clean run's directory; before/after: the dirty directory before and after the
    observed run.  Returns list of (case_id, message)."""
    bad = []
    res = result_names(spec)
    if set(clean) != res:
        bad.append(("clean-run-listing", "clean run leaves %s, expected exactly the result files %s"
                    % (sorted(clean), sorted(res))))
    for name in sorted(res):
        if name not in after:
            bad.append(("result-file-missing", "%s missing after the run in the dirty directory" % name))
        elif name in clean and after[name] != clean[name]:
            bad.append(("results-changed-by-leftovers", "%s differs from the clean run (%d vs %d bytes)%s"
                        % (name, len(after[name]), len(clean[name]), _first_diff(clean[name], after[name]))))
    left = sorted(intermediates(spec) & set(after))
    if left:
        bad.append(("intermediate-file-remains", "intermediate files of the observed run remain: %s" % left))
    # everything else in the directory must be an untouched leftover that this run never writes
    for name in sorted(set(after) - res - intermediates(spec)):
        if name not in before:
            bad.append(("unexpected-new-file", "%s appeared during the observed run" % name))
        elif before[name] != after[name]:
            bad.append(("foreign-file-modified", "%s (not a file of this run) was modified" % name))
    return bad


def _first_diff(a, b):
    la, lb = a.decode("utf8", "replace").splitlines(), b.decode("utf8", "replace").splitlines()
    for i, (x, y) in enumerate(zip(la, lb)):
        if x != y:
            return "; first differing line %d: %r vs %r" % (i, x[:80], y[:80])
    return "; one is a prefix of the other (%d vs %d lines)" % (len(la), len(lb))


# ------------------------------------------------------------------------------------------ (1) fabricated leftovers
def alien_rows(spec, n, score0, with_score=True):
    """rows of another table in the column layout of the chunk files of spec (metadata columns + score)"""
    df, _ = table(spec["seed"] + 500, max(2, n // 2), id0=7000)
    df = df.iloc[:n].copy()
    out = df[["SpecId", "Label", "ScanNr", "ExpMass", "Peptide", "Proteins"]].copy()
    out["Label"] = out["Label"] == 1
    if with_score:
        out["score"] = score0 - np.arange(len(out), dtype=float)
    return out


def write_table(df, path, fmt):
    if fmt == ".parquet":
        df.to_parquet(path, index=False)
    else:
        df.to_csv(path, sep="\t", index=False)


def fabricate(spec, dest, kind, rng):
    """put stale files of the given kind into dest; returns a description"""
    pre = (spec["prefix"] + ".") if spec["prefix"] else ""
    n = spec["n_spec"] * 2
    n_chunks = -(-n // spec["chunk"])
    fmt = spec["fmt"]
    made = []
    if kind in ("chunks-inside", "chunks-both", "everything"):
        for k in sorted(set(rng.sample(range(n_chunks), min(2, n_chunks)))):
            write_table(alien_rows(spec, 5, 50.0 + k), Path(dest) / ("%sscores_metadata_%d%s" % (pre, k, fmt)), fmt)
            made.append("chunk %d" % k)
    if kind in ("chunks-outside", "chunks-both", "everything"):
        for k in (n_chunks, n_chunks + 3, 10 * n_chunks + 7):
            write_table(alien_rows(spec, 4, 90.0 + k), Path(dest) / ("%sscores_metadata_%d%s" % (pre, k, fmt)), fmt)
            made.append("chunk %d" % k)
    if kind == "chunks-garbage":
        (Path(dest) / ("%sscores_metadata_%d%s" % (pre, n_chunks + 1, fmt))).write_bytes(b"\x00garbage\tnot a table\n\n")
        (Path(dest) / ("%sscores_metadata_zz%s" % (pre, fmt))).write_bytes(b"")
        made.append("garbage chunks")
    if kind in ("levels", "everything"):
        for lev in ("psms", "peptides", "proteins"):
            t = alien_rows(spec, 6, 70.0).rename(columns={"SpecId": "PSMId", "Peptide": "peptide",
                                                          "Proteins": "proteinIds"})
            write_table(t[["PSMId", "Label", "peptide", "proteinIds", "score"]], Path(dest) / (lev + fmt), fmt)
            made.append("level %s" % lev)
    if kind in ("results", "everything"):
        for name in sorted(result_names(spec)) + ["%stargets.proteins" % pre]:
            t = alien_rows(spec, 6, 60.0).rename(columns={"SpecId": "PSMId", "Peptide": "peptide",
                                                          "Proteins": "proteinIds"})
            t["q-value"] = 0.001
            t["posterior_error_prob"] = 0.002
            t[["PSMId", "peptide", "score", "q-value", "posterior_error_prob", "proteinIds"]].to_csv(
                Path(dest) / name, sep="\t", index=False)
            made.append("result %s" % name)
    if kind == "results-garbage":
        for name in sorted(result_names(spec)):
            (Path(dest) / name).write_bytes(b"junk without header\nand\tmore\tjunk\n" * 3)
        made.append("garbage results")
    if kind in ("other-prefix", "everything"):
        other = "zz." if pre != "zz." else "yy."
        write_table(alien_rows(spec, 5, 80.0), Path(dest) / ("%sscores_metadata_0%s" % (other, fmt)), fmt)
        (Path(dest) / ("%stargets.psms" % other)).write_text("PSMId\tpeptide\n1\tX\n")
        made.append("other prefix")
    return made


STALE_KINDS = ("chunks-inside", "chunks-outside", "chunks-both", "chunks-garbage", "levels", "results",
               "results-garbage", "other-prefix", "everything")


def stale_case(cfg):
    spec = cfg["spec"]
    rng = random.Random(cfg["rseed"])
    with scratch("c09_") as d:
        inp = Path(d) / "inputs"
        clean, dirty = Path(d) / "clean", Path(d) / "dirty"
        for p in (inp, clean, dirty):
            p.mkdir()
        try:
            do_run(spec, clean, inp)
        except BaseException as e:
            return [("clean-run-failed", repr(e))]
        fabricate(spec, dirty, cfg["kind"], rng)
        before = snapshot(dirty)
        try:
            do_run(spec, dirty, inp)
        except BaseException as e:
            return [("run-fails-on-leftovers-%s" % type(e).__name__,
                     "the run in the dirty directory raised %r" % e)]
        return judge(spec, snapshot(clean), before, snapshot(dirty))


def specs_for(tier, seed):
    rng = random.Random(seed)
    out = []
    for fmt in (".pin", ".parquet"):
        for prefix in (None, "run"):
            for chunk in (7, 16, 1000000):
                out.append(run_spec(seed=seed + len(out), n_spec=16 + rng.randrange(6), chunk=chunk, prefix=prefix,
                                    fmt=fmt, dedup=rng.random() < 0.7, rollup=rng.random() < 0.8))
    return out


def check_stale_files(tier, seed):
    specs = specs_for(tier, seed)
    cfgs = []
    for i, spec in enumerate(specs):
        kinds = STALE_KINDS if tier != "quick" else [STALE_KINDS[(i + j) % len(STALE_KINDS)] for j in (0, 3, 6, 8)]
        for kind in dict.fromkeys(kinds):
            cfgs.append(dict(spec=spec, kind=kind, rseed=seed * 1000 + len(cfgs)))
    ck = ClassCheck("stale_files", "mokapot.confidence.assign_confidence",
                    "%d cases (seed %d): %d observed runs (32-42 PSMs, text/Parquet, prefix none/'run', "
                    "CONFIDENCE_CHUNK_SIZE 7/16/default, de-dup and rollup on/off) x %s of the 9 kinds of fabricated "
                    "stale files (chunk files with other rows with k inside / outside / both sides of the range the "
                    "run writes, unreadable chunk files, level files, result files with other rows or junk, files "
                    "of another prefix, everything)" % (len(cfgs), seed, len(specs),
                                                       "all" if tier != "quick" else "4"),
                    "result files byte-identical to the same call in a clean directory; no intermediate file of the "
                    "observed run remains; other files untouched; every case is non-trivial (at least one stale "
                    "file present)")
    for cfg, bad in zip(cfgs, _pool_map(stale_case, cfgs)):
        ck.case(cfg, nontrivial=True)
        for case_id, msg in bad:
            ck.violation(case_id if case_id.startswith(("clean", "run-fails")) else
                         "%s-stale-%s" % (case_id, cfg["kind"]), msg, cfg)
    return ck


# ------------------------------------------------------------------------------------------ (2) real debris
class FaultInjector:
    """raises at the i-th call (counted over all four operations) of DataFrame.to_csv,
    pyarrow.parquet.ParquetWriter.write_table, pathlib.Path.unlink and os.unlink while armed"""
    def __init__(self, at, kind):
        self.at, self.kind, self.count, self.fired = at, kind, 0, None
        self.saved = []
        self.armed = False

    def _wrap(self, owner, name, label):
        orig = getattr(owner, name)
        inj = self

        def wrapper(*a, **k):
            if not inj.armed:
                return orig(*a, **k)
            i = inj.count
            inj.count += 1
            if i == inj.at:
                inj.fired = label
                raise (Interrupted if inj.kind == "interrupt" else InjectedIOError)("injected at call %d (%s)"
                                                                                   % (i, label))
            return orig(*a, **k)
        self.saved.append((owner, name, orig))
        setattr(owner, name, wrapper)

    def __enter__(self):
        import pyarrow.parquet as pq
        self._wrap(pd.DataFrame, "to_csv", "DataFrame.to_csv")
        self._wrap(pq.ParquetWriter, "write_table", "ParquetWriter.write_table")
        self._wrap(Path, "unlink", "Path.unlink")
        self._wrap(os, "unlink", "os.unlink")
        return self

    def __exit__(self, *exc):
        for owner, name, orig in reversed(self.saved):
            setattr(owner, name, orig)
        return False


def count_calls(spec):
    """number of fault points of a run (calls of the four operations in a fault-free execution)"""
    with scratch("c09n_") as d:
        inp, dest = Path(d) / "inputs", Path(d) / "dest"
        inp.mkdir()
        dest.mkdir()
        with FaultInjector(-1, "io") as inj:
            try:
                do_run_armed(spec, dest, inp, inj)
            except BaseException:
                pass            # an earlier run that fails by itself has fewer fault points
            return inj.count


def do_run_armed(spec, dest, inputs_dir, inj):
    """like do_run; the injector is armed only during assign_confidence (writing the input file is not counted)"""
    import mokapot.confidence as conf
    df, sc = table(spec["seed"], spec["n_spec"], id0=spec["id0"])
    ds = make_ds(df, Path(inputs_dir) / ("in_%d_%d%s" % (spec["seed"], spec["n_spec"], spec["fmt"])))
    saved = conf.CONFIDENCE_CHUNK_SIZE
    conf.CONFIDENCE_CHUNK_SIZE = spec["chunk"]
    inj.armed = True
    try:
        conf.assign_confidence(psms=[ds], max_workers=1, scores=[np.array(sc, dtype=float)], descs=[True],
                               eval_fdr=0.2, dest_dir=Path(dest), prefixes=[spec["prefix"]], decoys=True,
                               deduplication=spec["dedup"], do_rollup=spec["rollup"], rng=1)
    finally:
        inj.armed = False
        conf.CONFIDENCE_CHUNK_SIZE = saved


def debris_case(cfg):
    """cfg: spec (observed run), history = [(earlier spec, fault index, fault kind), ...]"""
    spec = cfg["spec"]
    with scratch("c09d_") as d:
        inp = Path(d) / "inputs"
        clean, dirty = Path(d) / "clean", Path(d) / "dirty"
        for p in (inp, clean, dirty):
            p.mkdir()
        try:
            do_run(spec, clean, inp)
        except BaseException as e:
            return {"bad": [("clean-run-failed", repr(e))], "outcomes": []}
        outcomes = []
        for espec, at, kind in cfg["history"]:
            with FaultInjector(at, kind) as inj:
                try:
                    do_run_armed(espec, dirty, inp, inj)
                    outcomes.append("completed" if inj.fired is None else "completed-despite-fault@%s" % inj.fired)
                except (Interrupted, InjectedIOError):
                    outcomes.append("failed@%s" % inj.fired)
                except BaseException as e:
                    outcomes.append("failed-otherwise@%s:%s" % (inj.fired, type(e).__name__))
        before = snapshot(dirty)
        try:
            do_run(spec, dirty, inp)
        except BaseException as e:
            return {"bad": [("run-fails-on-leftovers-%s" % type(e).__name__,
                             "after earlier runs %s the observed run raised %r; leftovers: %s"
                             % (outcomes, e, sorted(before)))], "outcomes": outcomes, "debris": sorted(before)}
        bad = judge(spec, snapshot(clean), before, snapshot(dirty))
        bad = [(c, "%s; earlier runs: %s; leftovers before the run: %s" % (m, outcomes, sorted(before)))
               for c, m in bad]
        return {"bad": bad, "outcomes": outcomes, "debris": sorted(before)}


def check_failed_earlier_runs(tier, seed):
    rng = random.Random(seed + 3)
    step = 2 if tier == "quick" else 1
    cfgs = []
    pairs = []
    for fmt in (".pin", ".parquet"):
        for prefix in (None, "run"):
            # observed run: 40 PSMs in chunks of 16 (3 chunk files); earlier run: other table, more and smaller chunks
            obs = run_spec(seed=seed, n_spec=20, chunk=16, prefix=prefix, fmt=fmt, dedup=True, rollup=True)
            same_prefix = run_spec(seed=seed + 50, n_spec=27, chunk=7, prefix=prefix, fmt=fmt, dedup=True,
                                   rollup=True, id0=3000)
            other_prefix = run_spec(seed=seed + 60, n_spec=18, chunk=5, prefix="old" if prefix is None else None,
                                    fmt=fmt, dedup=True, rollup=True, id0=5000)
            pairs.append((obs, same_prefix))
            if tier != "quick" or fmt == ".pin":
                pairs.append((obs, other_prefix))
    totals = {}
    for obs, early in pairs:
        key = json.dumps(early, sort_keys=True)
        if key not in totals:
            totals[key] = count_calls(early)
        total = totals[key]
        offset = rng.randrange(step)
        for at in range(offset, total + 1, step):        # at == total: the earlier run completes
            kind = "interrupt" if (at // step) % 2 == 0 else "io"
            kinds = [kind] if tier == "quick" else ["interrupt", "io"]
            for kd in kinds:
                cfgs.append(dict(spec=obs, history=[(early, at, kd)]))
    # sequences of 2-3 earlier runs with random fault points
    n_seq = 10 if tier == "quick" else 150
    for _ in range(n_seq):
        obs, _e = pairs[rng.randrange(len(pairs))]
        hist = []
        for k in range(rng.choice([2, 3])):
            e = run_spec(seed=seed + 70 + rng.randrange(20), n_spec=rng.randrange(12, 30),
                         chunk=rng.choice([3, 5, 7, 11, 1000000]), prefix=rng.choice([obs["prefix"], obs["prefix"],
                                                                                       "old"]),
                         fmt=obs["fmt"], dedup=rng.random() < 0.5, rollup=rng.random() < 0.8, id0=1000 * (k + 2),
                         must_succeed=False)
            hist.append((e, rng.randrange(0, 40), rng.choice(["interrupt", "io"])))
        cfgs.append(dict(spec=obs, history=hist))
    ck = ClassCheck("failed_earlier_runs", "mokapot.confidence.assign_confidence (after injected failures)",
                    "%d histories (seed %d): observed run (40 PSMs, chunk 16, text/Parquet, prefix none/'run') after "
                    "one earlier run on another table (54 PSMs in chunks of 7, same prefix; or 36 PSMs in chunks of "
                    "5, other prefix) that is made to fail at %s call of DataFrame.to_csv / "
                    "ParquetWriter.write_table / Path.unlink / os.unlink (OSError or BaseException), up to the "
                    "fault-free run (%s fault points per earlier run); plus %d sequences of 2-3 earlier runs "
                    "(random tables, chunk sizes 3-11/default, prefixes, random fault points)"
                    % (len(cfgs), seed, "every" if step == 1 else "every 2nd",
                       "/".join(str(v) for v in totals.values()), n_seq),
                    "result files byte-identical to the clean run, no intermediate file of the observed run "
                    "remains, other leftovers untouched; non-trivial = the earlier runs left at least one file")
    for cfg, r in zip(cfgs, _pool_map(debris_case, cfgs)):
        ck.case(cfg, nontrivial=bool(r.get("debris")))
        for case_id, msg in r["bad"]:
            ck.violation(case_id, msg, cfg)
    return ck


# ------------------------------------------------------------------------------------------ (3) CLI verify step
SRC_PATCH = None


def extract_verify_block():
    """source of the `if config.verify_pin:` statement of mokapot.mokapot.main"""
    path = os.path.join(REPO, "mokapot", "mokapot.py")
    src = open(path).read()
    if SRC_PATCH is not None:       # validation scripts only: a deliberately broken variant of the source text
        src = SRC_PATCH(src)
    tree = ast.parse(src)
    for node in ast.walk(tree):
        if isinstance(node, ast.If) and isinstance(node.test, ast.Attribute) and node.test.attr == "verify_pin":
            return compile(ast.Module(body=[node], type_ignores=[]), path, "exec")
    raise RuntimeError("verify block not found")


class _Stub:
    def __init__(self, **kw):
        self.__dict__.update(kw)

    def __getattr__(self, name):        # logging.info(...) etc.
        return lambda *a, **k: None


def run_verify(path):
    from mokapot.parsers.pin_to_tsv import is_valid_tsv, pin_to_valid_tsv
    env = {"config": _Stub(verify_pin=True, psm_files=[path]), "logging": _Stub(), "shutil": shutil,
           "is_valid_tsv": is_valid_tsv, "pin_to_valid_tsv": pin_to_valid_tsv, "Path": Path, "os": os}
    exec(extract_verify_block(), env)


def ragged_pin(rng, n):
    """an invalid PIN: the protein list of a line has 1-4 tab-separated entries"""
    head = ["SpecId", "Label", "ScanNr", "ExpMass", "f0", "Peptide", "Proteins"]
    lines = ["\t".join(head)]
    ragged = False
    for i in range(n):
        k = rng.choice([1, 2, 3, 4]) if i else 3
        ragged = ragged or k > 1
        prots = ["sp|P%05d|X%d" % (rng.randrange(99999), j) for j in range(k)]
        lines.append("\t".join(["t_%d" % i, rng.choice(["1", "-1"]), str(100 + i), "%.4f" % (500 + rng.random()),
                                "%.5f" % rng.gauss(0, 1), "K.PEP%dR.A" % rng.randrange(50)] + prots))
    return "\n".join(lines) + "\n"


def expected_conversion(text):
    """the rectangular table the property asks for: the surplus fields of a line are the rest of its protein list
    (the Proteins column is the last one), joined with ':'"""
    lines = text.splitlines()
    ncol = len(lines[0].split("\t"))
    out = [lines[0]]
    for ln in lines[1:]:
        f = ln.split("\t")
        out.append("\t".join(f[:ncol - 1] + [":".join(f[ncol - 1:])]))
    return "\n".join(out) + "\n"


def verify_case(cfg):
    rng = random.Random(cfg["rseed"])
    text = ragged_pin(rng, cfg["n"])
    other = ragged_pin(rng, cfg["n"] + 3)
    bad = []
    with scratch("c09v_") as d:
        for sub in ("a", "b"):
            (Path(d) / sub).mkdir()
        pin = Path(d) / "a" / "data.pin"
        pin.write_text(text)
        stale = Path(str(pin) + ".tsv")
        kind = cfg["stale"]
        if kind == "junk":
            stale.write_text("left over by something else\n\x01\x02\n" * 4)
        elif kind == "partial-own":
            cut = expected_conversion(text)
            stale.write_text(cut[:rng.randrange(1, len(cut))])
        elif kind == "other-file":
            stale.write_text(expected_conversion(other))
        elif kind == "header-only":
            stale.write_text(text.splitlines()[0] + "\n")
        try:
            run_verify(pin)
        except BaseException as e:
            return [("verify-step-failed-%s" % type(e).__name__, repr(e))]
        got = pin.read_text()
        want = expected_conversion(text)
        if got != want:
            if kind != "none" and got.endswith(want) and len(got) > len(want):
                bad.append(("stale-tsv-mixed-in", "input file = stale '<pin>.tsv' content (%d bytes) followed by its "
                            "own conversion" % (len(got) - len(want))))
            elif kind != "none":
                bad.append(("stale-tsv-changes-conversion", "input file differs from the conversion of its former "
                            "content%s" % _first_diff(want.encode(), got.encode())))
            else:
                bad.append(("conversion-wrong", "input file differs from the expected conversion%s"
                            % _first_diff(want.encode(), got.encode())))
        if stale.exists():
            bad.append(("temporary-tsv-remains", "'<pin>.tsv' still exists after the verify step"))
        # a second pass must leave the now valid file alone, whatever lies next to it
        if kind != "none":
            stale.write_text("junk again\n")
        try:
            run_verify(pin)
        except BaseException as e:
            return bad + [("verify-step-failed-on-valid-file-%s" % type(e).__name__, repr(e))]
        if pin.read_text() != got:
            bad.append(("valid-file-modified", "a valid input file was rewritten by the verify step"))
    return bad


def check_verify_step(tier, seed):
    kinds = ("none", "junk", "partial-own", "other-file", "header-only")
    reps = 6 if tier == "quick" else 80
    cfgs = [dict(rseed=seed * 100 + r, n=2 + (r * 3) % 11, stale=k) for r in range(reps) for k in kinds]
    ck = ClassCheck("cli_verify_step", "mokapot.mokapot.main (the `if config.verify_pin:` block, extracted with ast)",
                    "%d cases (seed %d): %d random invalid PIN files (2-12 PSMs, 1-4 tab-separated proteins per "
                    "line) x stale '<pin>.tsv' in {absent, junk, partial conversion of the same file, conversion of "
                    "another file, header only}; then a second pass over the converted file" % (len(cfgs), seed, reps),
                    "afterwards the input file holds exactly the conversion of its own former content (independent "
                    "re-implementation: surplus fields joined with ':'); non-trivial = a stale '<pin>.tsv' exists")
    for cfg, bad in zip(cfgs, _pool_map(verify_case, cfgs)):
        ck.case(cfg, nontrivial=cfg["stale"] != "none")
        for case_id, msg in bad:
            ck.violation(case_id, msg, cfg)
    return ck


# ------------------------------------------------------------------------------------------ (4) protein level
PROT_AA = "ACDEFGHILMNQSTVWY"          # no K / R: every generated peptide is one tryptic peptide


def protein_table(pseed, n_prot, pep_per):
    """PSM table + FASTA text + scores.  Every target protein is a concatenation of pep_per distinct 9-mers ending
    in K (so a tryptic digest without missed cleavages gives back exactly these peptides); its decoy
    'decoy_<name>' holds the same peptides with the first 8 residues reversed.  Every peptide has 1-2 PSMs (own
    scans); a quarter of the target peptides get clearly better scores.  Scores are continuous (no ties)."""
    rng = np.random.default_rng(pseed)
    seen = set()
    fasta, peps = [], []
    for j in range(n_prot):
        mine = []
        while len(mine) < pep_per:
            body = "".join(rng.choice(list(PROT_AA), 8))
            if body == body[::-1] or body in seen or body[::-1] in seen:
                continue
            seen.add(body)
            seen.add(body[::-1])
            mine.append(body)
        name = "sp|Q%04d|PR%d_TEST" % (j, j)
        fasta.append(">%s\n%s" % (name, "".join(b + "K" for b in mine)))
        fasta.append(">decoy_%s\n%s" % (name, "".join(b[::-1] + "K" for b in mine)))
        peps += [(1, b + "K", name) for b in mine] + [(-1, b[::-1] + "K", "decoy_" + name) for b in mine]
    rows, scores = [], []
    for label, pep, prot in peps:
        good = label == 1 and rng.random() < 0.25
        for _ in range(1 + int(rng.random() < 0.5)):
            i = len(rows)
            sc = float(rng.normal(4.0 if good else 0.0, 1.0))
            rows.append(dict(SpecId=i, Label=label, ScanNr=i + 1, ExpMass=500.0 + 0.37 * i, f0=round(sc, 5),
                             f1=round(float(rng.normal(0, 1)), 5), Peptide="K.%s.A" % pep, Proteins=prot))
            scores.append(sc)
    return pd.DataFrame(rows), np.array(scores, dtype=float), "\n".join(fasta) + "\n"


def prot_run(spec, dest, inputs_dir):
    """one real assign_confidence(..., proteins=<Proteins parsed from the FASTA>) call (text input)"""
    import mokapot
    import mokapot.confidence as conf
    df, sc, fasta = protein_table(spec["pseed"], spec["n_prot"], spec["pep_per"])
    inputs_dir = Path(inputs_dir)
    fa = inputs_dir / "db.fasta"
    fa.write_text(fasta)
    proteins = mokapot.read_fasta(fa, missed_cleavages=0)
    ds = make_ds(df, inputs_dir / "in.pin")
    saved = conf.CONFIDENCE_CHUNK_SIZE
    conf.CONFIDENCE_CHUNK_SIZE = spec["chunk"]
    try:
        conf.assign_confidence(psms=[ds], max_workers=1, scores=[sc.copy()], descs=[True], eval_fdr=0.2,
                               dest_dir=Path(dest), file_root=spec["root"], prefixes=[spec["prefix"]],
                               decoys=spec["decoys"], proteins=proteins, rng=1)
    finally:
        conf.CONFIDENCE_CHUNK_SIZE = saved
    return len(df)


_USABLE_PROT = {}


def prot_spec(pseed, n_prot, pep_per, chunk, root, prefix, decoys):
    """like run_spec: the data seed is advanced (by 1000) until the call succeeds in a clean directory (if no decoy
    survives at some level mokapot crashes while writing the results; not the subject here)"""
    key = (pseed, n_prot, pep_per)
    if key not in _USABLE_PROT:
        _warm_up()
        for k in range(50):
            trial = dict(pseed=pseed + 1000 * k, n_prot=n_prot, pep_per=pep_per, chunk=1000000, root="",
                         prefix=None, decoys=True)
            with scratch("c09q_") as d:
                (Path(d) / "i").mkdir()
                (Path(d) / "o").mkdir()
                try:
                    prot_run(trial, Path(d) / "o", Path(d) / "i")
                    break
                except BaseException:
                    continue
        _USABLE_PROT[key] = trial["pseed"]
    return dict(pseed=_USABLE_PROT[key], n_prot=n_prot, pep_per=pep_per, chunk=chunk, root=root, prefix=prefix,
                decoys=decoys)


PROT_LEVELS = ("psms", "peptides", "proteins")


def prot_names(spec, n_rows):
    """(result file names, {intermediate file name: kind}) of the run described by spec, from the documented naming:
    results '<root><prefix.>targets|decoys.<level>', level files '<root><level>.pin', chunk files
    '<root><prefix.>scores_metadata_<k>.pin' for the ceil(n_rows / chunk) chunks of the input"""
    pre = spec["root"] + ((spec["prefix"] + ".") if spec["prefix"] else "")
    kinds = ("targets", "decoys") if spec["decoys"] else ("targets",)
    res = {"%s%s.%s" % (pre, kind, lev) for kind in kinds for lev in PROT_LEVELS}
    inter = {"%s%s.pin" % (spec["root"], lev): "%s-level-file" % lev for lev in PROT_LEVELS}
    for k in range(-(-n_rows // spec["chunk"])):
        inter["%sscores_metadata_%d.pin" % (pre, k)] = "scores-metadata-chunk"
    return res, inter


def prot_fabricate(spec, dest, kind, n_rows):
    """stale files in dest: same-named files of an earlier run of the same root / prefix (the observed run writes
    over them) and files of other runs (other root; chunk numbers beyond those of this run)"""
    dest = Path(dest)
    res, inter = prot_names(spec, n_rows)
    pre = spec["root"] + ((spec["prefix"] + ".") if spec["prefix"] else "")
    other = "old." if spec["root"] != "old." else "older."
    alien = pd.DataFrame(dict(PSMId=[9001, 9002, 9003], Label=[True, False, True],
                              peptide=["K.AAAAAAAAK.A", "K.CCCCCCCCK.A", "K.DDDDDDDDK.A"],
                              proteinIds=["zz1", "decoy_zz1", "zz2"], score=[77.0, 76.0, 75.0]))
    alien_prot = pd.DataFrame({"mokapot protein group": ["zz1", "decoy_zz2"], "best peptide": ["K.AAAAAAAAK.A"] * 2,
                               "stripped sequence": ["AAAAAAAAK"] * 2, "score": [77.0, 76.0],
                               "Label": [True, False]})
    n_chunks = sum(1 for v in inter.values() if v == "scores-metadata-chunk")
    if kind in ("levels", "everything"):
        for root in (spec["root"], other):
            for lev in PROT_LEVELS:
                (alien_prot if lev == "proteins" else alien).to_csv(dest / ("%s%s.pin" % (root, lev)), sep="\t",
                                                                     index=False)
    if kind in ("results", "everything"):
        for name in sorted(res) + ["%stargets.proteins" % other, "%sdecoys.proteins" % other]:
            (dest / name).write_text("PSMId\tpeptide\tscore\n9001\tK.AAAAAAAAK.A\t77.0\n" * 3)
    if kind in ("chunks", "everything"):
        chunk_cols = alien.rename(columns={"PSMId": "SpecId", "peptide": "Peptide", "proteinIds": "Proteins"})
        chunk_cols["ScanNr"] = [9001, 9002, 9003]
        chunk_cols["ExpMass"] = 900.0
        chunk_cols = chunk_cols[["SpecId", "Label", "ScanNr", "ExpMass", "Peptide", "Proteins", "score"]]
        for k in (0, n_chunks - 1, n_chunks + 2):
            chunk_cols.to_csv(dest / ("%sscores_metadata_%d.pin" % (pre, k)), sep="\t", index=False)
        chunk_cols.to_csv(dest / ("%sscores_metadata_0.pin" % other), sep="\t", index=False)


PROT_STALE = ("none", "levels", "results", "chunks", "everything")


def prot_case(cfg):
    spec = cfg["spec"]
    with scratch("c09p_") as d:
        inp = Path(d) / "inputs"
        clean, dirty = Path(d) / "clean", Path(d) / "dirty"
        for p in (inp, clean, dirty):
            p.mkdir()
        try:
            n_rows = prot_run(spec, clean, inp)
        except BaseException as e:
            return {"bad": [("clean-run-failed", repr(e))], "nontrivial": False}
        csnap = snapshot(clean)
        res, inter = prot_names(spec, n_rows)
        pre = spec["root"] + ((spec["prefix"] + ".") if spec["prefix"] else "")
        tp = csnap.get("%stargets.proteins" % pre, b"")
        nontrivial = len(tp.splitlines()) >= 3          # header + at least two target protein groups
        if cfg["stale"] == "none":
            before, after = {}, csnap
        else:
            prot_fabricate(spec, dirty, cfg["stale"], n_rows)
            before = snapshot(dirty)
            try:
                prot_run(spec, dirty, inp)
            except BaseException as e:
                return {"bad": [("run-fails-on-leftovers-%s" % type(e).__name__,
                                 "the run in the directory with stale files raised %r" % e)], "nontrivial": nontrivial}
            after = snapshot(dirty)
        bad = []
        for name in sorted(res):
            if name not in after:
                bad.append(("result-file-missing", "%s missing after the run" % name))
            elif after[name] != csnap.get(name):
                bad.append(("results-changed-by-leftovers", "%s differs from the run in a clean directory%s"
                            % (name, _first_diff(csnap.get(name, b""), after[name]))))
            elif len(after[name].splitlines()) < 2:
                bad.append(("result-file-empty", "%s holds no row" % name))
        for name in sorted(set(after) - res):
            if name in inter:
                bad.append(("intermediate-file-left-behind:%s" % inter[name],
                            "%s (intermediate %s of this run) remains after the successful run; directory: %s"
                            % (name, inter[name].replace("-", " "), sorted(after))))
            elif name not in before:
                bad.append(("unexpected-new-file", "%s appeared during the run" % name))
            elif before[name] != after[name]:
                bad.append(("foreign-file-modified", "%s (not a file of this run) was modified" % name))
        return {"bad": bad, "nontrivial": nontrivial}


def check_protein_level_cleanup(tier, seed):
    cfgs = []
    datas = [(seed, 24, 2)] if tier == "quick" else [(seed, 24, 2), (seed + 1, 30, 2), (seed + 2, 20, 3)]
    for pseed, n_prot, pep_per in datas:
        for root in ("", "exp1."):
            for prefix in (None, "run"):
                for i, stale in enumerate(PROT_STALE):
                    combos = [(i + len(root) + bool(prefix)) % 2] if tier == "quick" else [0, 1]
                    for c in combos:
                        cfgs.append(dict(spec=prot_spec(pseed, n_prot, pep_per, chunk=(1000000, 64)[c], root=root,
                                                        prefix=prefix, decoys=bool((c + i) % 2 == 0)),
                                         stale=stale))
    ck = ClassCheck("protein_level_cleanup", "mokapot.confidence.assign_confidence (proteins=mokapot.read_fasta(...))",
                    "%d cases (seed %d): %d generated table(s) + FASTA with hand-written 'decoy_' entries (20-30 "
                    "protein pairs x 2-3 tryptic 9-mers, 1-2 PSMs per peptide, 140-190 PSMs, text input only) x file_root ''/'exp1.' "
                    "x prefix none/'run' x stale files {none, level files, result files, chunk files, everything} "
                    "(same-named files and files of another root / other chunk numbers), CONFIDENCE_CHUNK_SIZE "
                    "default/64, decoys= on/off" % (len(cfgs), seed, len(datas)),
                    "after the successful run the directory holds exactly the result files (<root><prefix.>"
                    "targets|decoys.psms|peptides|proteins), byte-identical to the run in a clean directory, plus "
                    "untouched stale files this run never writes: no <root>psms|peptides|proteins.pin level file, "
                    "no scores_metadata chunk file of this run; non-trivial = targets.proteins holds >= 2 protein "
                    "groups")
    for cfg, r in zip(cfgs, _pool_map(prot_case, cfgs)):
        ck.case(cfg, nontrivial=r["nontrivial"])
        for case_id, msg in r["bad"]:
            ck.violation(case_id, msg, cfg)
    return ck


# ------------------------------------------------------------------------------------------ (5) stand-alone rollup tool
# Property: mokapot.brew_rollup.main never takes its own earlier result files as input, however the directory it
# reads from and writes to is spelled.  The real `main` is run on generated per-experiment result files; the oracle
# is the definition of a rollup computed from the genuine input tables only (the best scoring row of every entity),
# plus byte-identity with the same call on copies of the genuine files in clean, separate directories.
ROLL_OUT_LEVELS = {"psm": ("precursor", "peptide"), "precursor": ("precursor", "peptide"), "peptide": ("peptide",)}
ROLL_EARLIER = ("none", "real-run-with-withdrawn-experiment", "fabricated-results", "junk-results")
ROLL_DEST_DIRTY = "different-directories-earlier-results-in-dest"
# name -> (class used in the case ids, src argument, dest argument, working directory); {A} absolute path of the
# directory, {P} its parent (the directory is {P}/out, {P}/side exists), {L} a symlink to it, {O} another directory;
# None = option omitted (the tool then uses './')
ROLL_SPELLINGS = {
    "same-string-absolute": ("same-string", "{A}", "{A}", None),
    "same-string-relative": ("same-string", "out", "out", "{P}"),
    "both-omitted-cwd": ("same-string", None, None, "{A}"),
    "src-absolute-dest-relative": ("absolute-vs-relative", "{A}", "out", "{P}"),
    "src-relative-dest-absolute": ("absolute-vs-relative", "out", "{A}", "{P}"),
    "src-trailing-slash": ("redundant-slash-or-dot", "{A}/", "{A}", None),
    "dest-dot-prefix": ("redundant-slash-or-dot", "out", "./out", "{P}"),
    "src-dotdot-component": ("dotdot-component", "{P}/side/../out", "{A}", None),
    "dest-dotdot-component": ("dotdot-component", "out", "side/../out", "{P}"),
    "src-symlink": ("symlink", "{L}", "{A}", None),
    "dest-symlink": ("symlink", "{A}", "{L}", None),
    "src-omitted-cwd": ("omitted-option-vs-explicit-cwd", None, "{A}", "{A}"),
    "dest-omitted-cwd": ("omitted-option-vs-explicit-cwd", "{A}", None, "{A}"),
    "different-directories-earlier-results-in-src": ("different-directories-earlier-results-in-src", "{A}", "{O}", None),
    ROLL_DEST_DIRTY: (ROLL_DEST_DIRTY, "{A}", "{O}", None),
}


def roll_tables(dseed, exps, n, level, shift=0.0):
    """{(experiment, 'targets'|'decoys'): table in the layout of mokapot's result files}, n rows each, sorted by
    descending score (as mokapot writes them), continuous scores, entities drawn with repetition from a pool shared
    by all experiments (so the rollup has something to do)"""
    rng = np.random.default_rng(dseed)
    out = {}
    for exp in exps:
        for kind, loc in (("targets", 1.5), ("decoys", 0.0)):
            pep = ["PEP%s%dK" % (kind[0].upper(), j) for j in rng.integers(0, n, n)]
            df = pd.DataFrame({"PSMId": ["%s_%s_%d" % (exp, kind[0], i) for i in range(n)], "peptide": pep,
                               "score": np.sort(rng.normal(loc + shift, 1.0, n))[::-1],
                               "q-value": np.linspace(0.001, 1.0, n), "posterior_error_prob": np.linspace(0.001, 1.0, n),
                               "proteinIds": ["PROT%d" % (i % 5) for i in range(n)]})
            if level != "peptide":
                df.insert(1, "precursor", ["%s/%d" % (q, z) for q, z in zip(pep, rng.integers(2, 4, n))])
            out[(exp, kind)] = df
    return out


def roll_write(tables, directory, level, fmt):
    for (exp, kind), df in tables.items():
        path = Path(directory) / ("%s.%s.%ss%s" % (exp, kind, level, fmt))
        if fmt:
            df.to_parquet(path, index=False)
        else:
            df.to_csv(path, sep="\t", index=False)


def roll_expected(tables, level):
    """{(out level, kind): {psm id: (entity, score)}}: of all genuine rows the best scoring one per entity"""
    rows = []
    for (exp, kind), df in tables.items():
        t = df.copy()
        t["_target"] = kind == "targets"
        rows.append(t)
    rows = pd.concat(rows, ignore_index=True)
    assert rows["score"].is_unique
    want = {}
    for lev in ROLL_OUT_LEVELS[level]:
        best = rows.loc[rows.groupby(lev)["score"].idxmax()]
        for kind in ("targets", "decoys"):
            sel = best[best["_target"] == (kind == "targets")]
            want[(lev, kind)] = {str(i): (str(e), float(s)) for i, e, s in zip(sel["PSMId"], sel[lev], sel["score"])}
    return want


def roll_main(level, src, dest, root):
    from mokapot import brew_rollup
    argv = ["--level", level, "-v", "0"]
    if src is not None:
        argv += ["-s", src]
    if dest is not None:
        argv += ["-d", dest]
    if root != "rollup":
        argv += ["-r", root]
    brew_rollup.main(argv)


def roll_result_names(level, fmt, root):
    return {(lev, kind): "%s.%s.%ss%s" % (root, kind, lev, fmt)
            for lev in ROLL_OUT_LEVELS[level] for kind in ("targets", "decoys")}


def roll_judge(out_dir, want, genuine_ids, level, fmt, root, ref, tag, note):
    bad = []
    for (lev, kind), name in sorted(roll_result_names(level, fmt, root).items()):
        path = Path(out_dir) / name
        if not path.is_file():
            bad.append(("rollup-result-file-missing:" + tag, "%s missing after the run%s" % (name, note)))
            continue
        try:
            got = pd.read_parquet(path) if fmt else pd.read_csv(path, sep="\t")
            ids = [str(v) for v in got["psm_id"]]
            rows = {i: (str(e), float(s)) for i, e, s in zip(ids, got[lev], got["score"])}
        except Exception as e:
            bad.append(("rollup-result-file-unreadable:" + tag, "%s: %r%s" % (name, e, note)))
            continue
        exp = want[(lev, kind)]
        foreign = sorted(set(ids) - genuine_ids)
        if foreign:
            bad.append(("rollup-earlier-results-taken-as-input:" + tag,
                        "%s holds %d row(s) that are in none of the input files, e.g. %s (%d rows, expected %d)%s"
                        % (name, len(foreign), foreign[:3], len(ids), len(exp), note)))
        elif (len(ids) != len(rows) or set(rows) != set(exp)
              or any(rows[i][0] != exp[i][0] or abs(rows[i][1] - exp[i][1]) > 1e-9 for i in exp)):
            bad.append(("rollup-results-differ-from-independent-rollup:" + tag,
                        "%s: %d rows / %d ids, expected %d; missing %s, surplus %s%s"
                        % (name, len(ids), len(rows), len(exp), sorted(set(exp) - set(rows))[:3],
                           sorted(set(rows) - set(exp))[:3], note)))
        elif ref is not None and path.read_bytes() != ref.get(name):
            bad.append(("rollup-results-changed-by-leftovers:" + tag,
                        "%s has the expected rows but differs from the run in clean directories%s" % (name, note)))
    return bad


def roll_result_layout(df):
    return df.rename(columns={"PSMId": "psm_id", "q-value": "q_value"})


def roll_case(cfg):
    old_cwd = os.getcwd()
    with scratch("c09r_") as d:
        try:
            return _roll_case(cfg, Path(d).resolve())
        finally:
            os.chdir(old_cwd)


def _roll_case(cfg, base):
    level, fmt, root, n = cfg["level"], cfg["fmt"], cfg["root"], cfg["n"]
    spelling, earlier = cfg["spelling"], cfg["earlier"]
    err = None
    # like run_spec: the data seed is advanced (by 1000) until the reference run in clean directories and the real
    # earlier run succeed (PEP estimation gives up on some small tables; not the subject here)
    for k in range(20):
        dseed = cfg["dseed"] + 1000 * k
        att = base / ("t%d" % k)
        parent, work, other, link = att / "w", att / "w" / "out", att / "elsewhere", att / "lnk"
        ref_src, ref_dest = att / "ref_src", att / "ref_dest"
        for p in (att, parent, work, parent / "side", other, ref_src, ref_dest):
            p.mkdir()
        os.symlink(work, link, target_is_directory=True)
        where = other if spelling == ROLL_DEST_DIRTY else work      # the directory the earlier results lie in
        genuine = roll_tables(dseed, ("a", "b"), n, level)
        roll_write(genuine, ref_src, level, fmt)
        roll_write(genuine, work, level, fmt)
        try:
            roll_main(level, str(ref_src), str(ref_dest), root)
            if earlier == "real-run-with-withdrawn-experiment":
                withdrawn = roll_tables(dseed + 7, ("x",), n, level, shift=1.0)
                roll_write(withdrawn, work, level, fmt)
                roll_main(level, str(work), str(where), root)
                for (exp, kind) in withdrawn:
                    (work / ("%s.%s.%ss%s" % (exp, kind, level, fmt))).unlink()
            break
        except BaseException as e:
            err = e
    else:
        return {"bad": [("rollup-reference-run-failed", repr(err))], "nontrivial": False}
    if earlier == "fabricated-results":
        alien = roll_tables(dseed + 13, ("zz",), n, level, shift=1.5)
        for (lev, kind), name in roll_result_names(level, fmt, root).items():
            t = roll_result_layout(alien[("zz", kind)])
            if fmt:
                t.to_parquet(where / name, index=False)
            else:
                t.to_csv(where / name, sep="\t", index=False)
    elif earlier == "junk-results":
        for name in roll_result_names(level, fmt, root).values():
            (where / name).write_bytes(b"junk without header\nand\tmore\tjunk\n\x00\x01" * 3)
    before = sorted(os.listdir(where))
    sub = {"A": str(work), "P": str(parent), "L": str(link), "O": str(other)}
    tag = ROLL_SPELLINGS[spelling][0]
    src, dest, cwd = [v.format(**sub) if v is not None else None for v in ROLL_SPELLINGS[spelling][1:]]
    want = roll_expected(genuine, level)
    genuine_ids = {str(i) for df in genuine.values() for i in df["PSMId"]}
    ref = snapshot(ref_dest)
    note = "; spelling %s: -s %s -d %s (cwd %s); earlier results: %s; directory before the run: %s" % (
        spelling, src, dest, "unchanged" if cwd is None else cwd, earlier, before)
    note = note.replace(str(att), "<tmp>")
    # results matching the input pattern '*.targets|decoys.<level>s' exist in the directory that is read
    nontrivial = earlier != "none" and level != "psm" and where == work
    bad = roll_judge(ref_dest, want, genuine_ids, level, fmt, root, None, "clean-separate-directories", "")
    try:
        if cwd is not None:
            os.chdir(cwd)
        roll_main(level, src, dest, root)
    except BaseException as e:
        return {"bad": bad + [("rollup-run-fails%s-%s:%s" % ("-on-leftovers" if earlier != "none" else "",
                                                            type(e).__name__, tag),
                               ("brew_rollup.main raised %r%s" % (e, note)).replace(str(att), "<tmp>"))],
                "nontrivial": nontrivial}
    out_dir = other if spelling.startswith("different-directories") else work     # where the results are written
    bad += roll_judge(out_dir, want, genuine_ids, level, fmt, root, ref, tag, note)
    return {"bad": bad, "nontrivial": nontrivial}


def check_rollup_directory_spellings(tier, seed):
    cfgs = []
    fmts, roots = ("", ".parquet"), ("rollup", "all")
    for i, spelling in enumerate(ROLL_SPELLINGS):
        if tier == "quick":
            combos = [("peptide", ROLL_EARLIER[1]), ("precursor", ROLL_EARLIER[2]),
                      [("precursor", ROLL_EARLIER[1]), ("peptide", "junk-results"), ("peptide", "none"),
                       ("peptide", ROLL_EARLIER[2]), ("precursor", "junk-results"), ("psm", ROLL_EARLIER[1]),
                       ("precursor", "none"), ("psm", ROLL_EARLIER[2])][(i + seed) % 8]]
            combos = [(lv, ea, fmts[(i + j) % 2], roots[((i + j) // 2) % 2]) for j, (lv, ea) in enumerate(combos)]
        else:
            combos = [(lv, ea, f, r) for lv in ("peptide", "precursor", "psm") for ea in ROLL_EARLIER for f in fmts
                      for r in roots]
        for lv, ea, f, r in combos:
            cfgs.append(dict(spelling=spelling, level=lv, earlier=ea, fmt=f, root=r, n=30 + (len(cfgs) * 7) % 13,
                             dseed=seed * 100 + len(cfgs) % 9))
    ck = ClassCheck("rollup_directory_spellings", "mokapot.brew_rollup.main",
                    "%d cases (seed %d): %d ways to name the directory that is read and written (same string "
                    "absolute / relative, absolute vs relative with os.chdir, trailing slash, './' prefix, a '..' "
                    "component, a symlink, -s / -d omitted with the directory as cwd; 2 with really different "
                    "directories, earlier results in the source resp. the destination) x %s 48 combinations of --level "
                    "{peptide, precursor, psm} x earlier results {none, left by a real earlier run that included an "
                    "experiment since withdrawn, fabricated result files with other rows, junk} x {text, Parquet} x "
                    "file_root {default, 'all'}; 2 experiments x targets/decoys x 30-42 rows (+1 withdrawn experiment)"
                    % (len(cfgs), seed, len(ROLL_SPELLINGS),
                       "all" if tier != "quick" else "3 (peptide + real earlier run, precursor + fabricated "
                       "results, one rotating) of the"),
                    "every result file <root>.targets|decoys.<level>s holds exactly the best scoring row of every "
                    "entity over the genuine input files (independent rollup; no psm id from elsewhere) and is "
                    "byte-identical to the same call on copies of the inputs in clean, separate directories; the "
                    "'<root>.temp.<level>s' files the tool leaves behind are ignored; non-trivial = earlier result "
                    "files matching the input pattern '*.targets|decoys.<level>s' lie in the directory that is read")
    found = []
    for cfg, r in zip(cfgs, _pool_map(roll_case, cfgs)):
        ck.case(cfg, nontrivial=r["nontrivial"])
        found += [(case_id, msg, cfg) for case_id, msg in r["bad"]]
    # only 5 classes are listed in the output: those that name a leak first
    found.sort(key=lambda f: not f[0].startswith("rollup-earlier-results-taken-as-input"))
    for case_id, msg, cfg in found:
        ck.violation(case_id, msg, cfg)
    return ck


# ------------------------------------------------------------------------------------------ replay
def REPLAY(check_name, violation):
    inp = violation["input"]
    if isinstance(inp, str):
        inp = json.loads(inp)
    if check_name == "stale_files":
        bad = stale_case(inp)
    elif check_name == "failed_earlier_runs":
        inp["history"] = [tuple(h) for h in inp["history"]]
        bad = debris_case(inp)["bad"]
    elif check_name == "cli_verify_step":
        bad = verify_case(inp)
    elif check_name == "protein_level_cleanup":
        bad = prot_case(inp)["bad"]
    elif check_name == "rollup_directory_spellings":
        bad = roll_case(inp)["bad"]
    else:
        return {"violated": None, "note": "no replay for %s" % check_name}
    return {"violated": bool(bad), "detail": bad[:5]}


if __name__ == "__main__":
    a = args()
    np.random.seed(a.seed)
    emit([check_stale_files(a.tier, a.seed), check_failed_earlier_runs(a.tier, a.seed),
          check_verify_step(a.tier, a.seed), check_protein_level_cleanup(a.tier, a.seed),
          check_rollup_directory_spellings(a.tier, a.seed)],
         ["faults are injected by replacing DataFrame.to_csv, pyarrow.parquet.ParquetWriter.write_table, "
          "pathlib.Path.unlink and os.unlink; writes that bypass these four calls are not fault points",
          "an injected OSError in Path.unlink is swallowed by the cleanup of create_sorted_file_iterator (the earlier "
          "run then completes and leaves its chunk file behind); this is part of the histories, not a violation",
          "max_workers=1; the sqlite output is not exercised; protein-level confidence (proteins=) only with text "
          "input in protein_level_cleanup (Parquet input with proteins fails on its own in this tree), without "
          "fault injection",
          "brew_rollup leaves '<root>.temp.<level>s' files behind after success: recorded as an observation in "
          "DESIGN.md, not tested here (rollup_directory_spellings ignores these files)",
          "rollup_directory_spellings calls brew_rollup.main in-process (os.chdir for relative spellings, restored "
          "afterwards) on generated result-file-like tables (columns PSMId [precursor] peptide score q-value "
          "posterior_error_prob proteinIds, tie-free scores); --level modifiedpeptide / peptidegroup and earlier "
          "results of the other file type (text vs Parquet) are not exercised; with really different directories "
          "result files of an earlier rollup that lie in the source directory count as leftovers that must not be "
          "read (property text: files left in the source directory by earlier runs)",
          "the CLI verify step is run as extracted code with stub config/logging objects, not through main()"])
