"""C01 bounded stand-in: the real mokapot.qvalues.tdc and mokapot.dataset._update_labels against the defining
formula of the property statement (exact rational oracle in harness/_c01_oracle.py).

  python -m harness.c01 --tier quick|thorough --seed N
"""
import hashlib
import itertools
import json
import logging
import multiprocessing as mp
import warnings
from fractions import Fraction

import numpy as np

from harness.common import Check, args, emit
from harness._c01_oracle import oracle_q, oracle_q_fast, oracle_labels
from harness._c01_scales import TABLES, FAMILIES, N_TINY_GAP_TABLES, random_scaled

warnings.filterwarnings("ignore")
logging.disable(logging.CRITICAL)

REL_TOL = 1e-6                      # float32 FDR buffer inside tdc
SCORE_DTYPES = ("float64", "float32", "int8", "uint8", "int64", "uint64")
LABEL_ENCS = ("bool", "int", "float")
# strictly increasing rescalings, per dtype (index = rank value 0..5); integer tables touch the dtype limits
RESCALE = {
    "float64": lambda r: r ** 3 / 7.0 + r - 11.5,
    "float32": lambda r: np.exp(r / 2.0).astype(np.float32),
    "int8": lambda r: np.array([-128, -5, 0, 1, 77, 127], dtype=np.int8)[r.astype(int)],
    "uint8": lambda r: np.array([0, 1, 2, 100, 200, 255], dtype=np.uint8)[r.astype(int)],
    # neighbouring integers far above 2**24 (float32 cannot tell them apart) up to the last exact double
    "int64": lambda r: np.array([-2 ** 53 + 1, -2 ** 40 - 1, -2 ** 40, 2 ** 24 + 1, 2 ** 24 + 2, 2 ** 53 - 1],
                                dtype=np.int64)[r.astype(int)],
    "uint64": lambda r: np.array([0, 2 ** 24 + 1, 2 ** 24 + 2, 2 ** 40, 2 ** 40 + 1, 2 ** 53 - 1],
                                 dtype=np.uint64)[r.astype(int)],
}
FIXED_FDRS = (0.01, 0.05, 0.1, 0.2, 0.25, 1 / 3, 0.4, 0.5, 2 / 3, 0.75, 0.9, 1.0)


def _qv():
    import mokapot.qvalues as qv     # looked up at call time so that a monkey-patched tdc is the one exercised
    return qv


def _ds():
    import mokapot.dataset as ds
    return ds


def _enc_labels(lab, enc):
    a = np.array(lab, dtype=bool)
    if enc == "bool":
        return a
    if enc == "int":
        return a.astype(np.int64)
    return a.astype(np.float64)


def weak_orderings(n):
    """All weak orderings of n items as rank vectors (values exactly {0..k-1} for some k)."""
    out = []
    for r in itertools.product(range(n), repeat=n):
        k = max(r) + 1
        if len(set(r)) == k:
            out.append(r)
    return out


def _digest(key):
    return hashlib.md5(repr(key).encode()).digest()[:8]


# ----------------------------------------------------------------------------------------------------------
# tdc against the formula
# ----------------------------------------------------------------------------------------------------------
def _consequences(q, scores, desc):
    """The consequences listed in the statement, checked on the returned vector alone (exact comparisons).
    Returns a short tag or None."""
    n = len(scores)
    if q.shape != (n,):
        return "shape"
    if not np.all(np.isfinite(q)) or not np.all((q > 0) & (q <= 1)):
        return "range"
    q = q.tolist()
    scores = scores.tolist()
    for i in range(n):
        for j in range(n):
            if scores[i] == scores[j]:
                if q[i] != q[j]:
                    return "ties-unequal"
            else:
                i_better = scores[i] > scores[j] if desc else scores[i] < scores[j]
                if i_better and q[i] > q[j]:
                    return "not-monotone"
    return None


def _tdc_one(scores, labels, desc, expect):
    """Run the real tdc once. expect: floats of the oracle. Returns (tag or None, detail)."""
    try:
        q = np.asarray(_qv().tdc(scores, labels, desc=desc))
    except Exception as e:                               # noqa: BLE001
        return "exception:" + type(e).__name__, str(e)[:200]
    tag = _consequences(q, np.asarray(scores).astype(float), desc)
    if tag:
        return tag, q.tolist()
    err = np.abs(q - expect)
    if np.any(err > REL_TOL * expect):
        return "formula-mismatch", {"got": q.tolist(), "want": [float(x) for x in expect]}
    return None, q


def _class_id(tag, ranks, desc, sdt, enc):
    ties = len(set(ranks)) < len(ranks)
    return "%s/%s/%s/%s/%s" % (tag, "desc" if desc else "asc", "ties" if ties else "noties", sdt, enc)


def _tdc_case(ranks, lab, desc, full_cross, rot):
    """All calls for one (weak ordering, labelling, direction). Returns (n_calls, violations)."""
    vio = []
    n = len(ranks)
    want = oracle_q(ranks, lab, desc)
    if n <= 6:
        fast = oracle_q_fast(np.array(ranks, dtype=float), lab, desc)
        if fast != want:
            raise AssertionError("harness oracles disagree on %r %r %r" % (ranks, lab, desc))
    expect = np.array([float(x) for x in want])
    r = np.array(ranks)
    calls = 0
    if full_cross:
        combos = [(s, e) for s in SCORE_DTYPES for e in LABEL_ENCS]
    else:                                   # every score dtype, label encoding rotating with the case number
        combos = [(s, LABEL_ENCS[(rot + k) % 3]) for k, s in enumerate(SCORE_DTYPES)]
    base_q = {}
    for sdt, enc in combos:
        scores = r.astype(sdt)
        tag, det = _tdc_one(scores, _enc_labels(lab, enc), desc, expect)
        calls += 1
        if tag:
            vio.append((_class_id(tag, ranks, desc, sdt, enc), tag,
                        {"scores": list(ranks), "targets": [int(x) for x in lab], "desc": desc,
                         "score_dtype": sdt, "label_enc": enc, "detail": det}))
        elif enc == "bool" or not full_cross:
            base_q[sdt] = det
    # invariance under a strictly increasing rescaling (per dtype), exact equality with the unscaled result
    resc = list(base_q.items())
    if not full_cross and resc:
        resc = [resc[rot % len(resc)]]
    for sdt, q0 in resc:
        scaled = RESCALE[sdt](r.astype(float))
        tag, det = _tdc_one(scaled, _enc_labels(lab, "bool"), desc, expect)
        calls += 1
        if tag is None and not np.array_equal(det, q0):
            tag, det = "rescaling-changes-q", {"unscaled": q0.tolist(), "rescaled": det.tolist()}
        if tag:
            tag = tag if tag.startswith("rescal") else "rescaled:" + tag
            vio.append((_class_id(tag, ranks, desc, sdt, "bool"), tag,
                        {"scores": np.asarray(scaled).tolist(), "targets": [int(x) for x in lab], "desc": desc,
                         "score_dtype": sdt, "label_enc": "bool", "detail": det}))
    # input order: the reversed input gives the reversed output
    if "float64" in base_q and n > 1:
        tag, det = _tdc_one(r[::-1].astype(float), _enc_labels(lab[::-1], "bool"), desc, expect[::-1])
        calls += 1
        if tag is None and not np.array_equal(det, base_q["float64"][::-1]):
            tag, det = "order-dependence", det.tolist()
        if tag:
            tag = tag if tag.startswith("order") else "reversed:" + tag
            vio.append((_class_id(tag, ranks, desc, "float64", "bool"), tag,
                        {"scores": list(ranks[::-1]), "targets": [int(x) for x in lab[::-1]], "desc": desc,
                         "score_dtype": "float64", "label_enc": "bool", "detail": det}))
    return calls, vio


def _tdc_shard(job):
    n, rank_list, full_cross = job
    calls, digs, vio = 0, [], []
    rot = 0
    for ranks in rank_list:
        for lab in itertools.product((False, True), repeat=n):
            for desc in (True, False):
                rot += 1
                c, v = _tdc_case(ranks, lab, desc, full_cross, rot)
                calls += c
                if any(lab) and not all(lab):
                    digs.append(_digest((ranks, lab, desc)))
                if v and len(vio) < 40:
                    vio.extend(v[:3])
    return calls, digs, vio


def _random_tdc_cases(n_cases, seed):
    rng = np.random.default_rng(seed)
    for k in range(n_cases):
        n = int(rng.integers(7, 61))
        sdt = SCORE_DTYPES[k % 4]
        enc = LABEL_ENCS[(k // 4) % 3]
        desc = bool((k // 12) % 2)
        if sdt == "int8":
            scores = rng.integers(-128, 128, n).astype(np.int8) if k % 8 < 4 else rng.integers(-3, 4, n).astype(np.int8)
        elif sdt == "uint8":
            scores = rng.integers(0, 256, n).astype(np.uint8) if k % 8 < 4 else rng.integers(250, 256, n).astype(np.uint8)
        else:
            scores = rng.normal(0, 2, n)
            if k % 3:
                scores = np.round(scores * 4, int(rng.integers(-1, 1))) / 4     # ties; short exact binary fractions
            else:
                scores = scores[:40]                                    # keeps the replay record short
                n = len(scores)
            scores = scores.astype(sdt)
        lab = rng.random(len(scores)) < rng.choice([0.2, 0.5, 0.8])
        if k % 5 == 0:                                                  # targets tend to score better
            sh = np.asarray(scores, dtype=float) + (2.0 if desc else -2.0) * lab
            scores = np.clip(np.round(sh), 0, 255).astype(sdt) if sdt == "uint8" else \
                np.clip(np.round(sh), -128, 127).astype(sdt) if sdt == "int8" else sh.astype(sdt)
        yield scores, lab, desc, sdt, enc


def _pool(jobs, fn):
    _qv().tdc(np.array([1.0, 2.0]), np.array([True, False]))            # compile before forking
    _qv().tdc(np.array([1.0, 2.0], dtype=np.float32), np.array([True, False]))
    ctx = mp.get_context("fork")
    with ctx.Pool(min(16, max(1, len(jobs)))) as p:
        return p.map(fn, jobs, chunksize=1)


def _chunks(xs, k):
    return [xs[i:i + k] for i in range(0, len(xs), k)]


def _freeze(ck):
    """common.Check computes wall_s when the result is emitted; fix it at the end of the check instead."""
    res = ck.result()
    ck.result = lambda: res
    return ck


def check_tdc_formula(tier, seed):
    nmax = 5 if tier == "quick" else 6
    n_rand = 1500 if tier == "quick" else 20000
    counts = {n: len(weak_orderings(n)) for n in range(1, nmax + 1)}
    ck = Check(
        "tdc_formula", "mokapot.qvalues.tdc",
        "exhaustive: every weak ordering x every target/decoy labelling x both directions for n = 1..%d "
        "(%s weak orderings; %d (ordering, labelling, direction) cases), each for score dtypes "
        "float64/float32/int8/uint8/int64/uint64 x label encodings bool/int/float, plus one strictly increasing "
        "rescaling per dtype (64-bit integers: neighbouring values between 2**24 and 2**53) and the reversed input; "
        "random: %d vectors (seed %d) of length 7..60 with ties, float and 8-bit dtypes; "
        "tolerance %g relative to the exact rational oracle"
        % (nmax, counts, sum(c * 2 ** n * 2 for n, c in counts.items()), n_rand, seed, REL_TOL),
        "rank vectors 0..k-1 are the scores (rescaled through per-dtype tables reaching the dtype limits); oracle = "
        "literal min over thresholds of (decoys+1)/targets in Fractions; non-trivial = at least one target and one "
        "decoy (distinct (ordering, labelling, direction) counted once, whatever the dtype)")
    jobs = []
    for n in range(1, nmax + 1):
        wos = weak_orderings(n)
        for part in _chunks(wos, 12 if n >= 5 else 100):
            jobs.append((n, part, n <= 4))
    for calls, digs, vio in _pool(jobs, _tdc_shard):
        ck.evaluations += calls
        ck.distinct.update(digs)
        for cid, what, inp in vio:
            ck.violation(cid, what, inp)
    ck.samples = [{"scores": [0, 1, 1, 2], "targets": [1, 0, 1, 0], "desc": True},
                  {"scores": [2, 0, 0, 1, 2], "targets": [0, 0, 1, 1, 1], "desc": False}]
    for scores, lab, desc, sdt, enc in _random_tdc_cases(n_rand, seed):
        sf = np.asarray(scores).astype(float)
        want = oracle_q_fast(sf, lab, desc)
        expect = np.array([float(x) for x in want])
        ck.case(("rand", sf.tolist(), lab.tolist(), desc), nontrivial=bool(lab.any() and not lab.all()))
        tag, det = _tdc_one(scores, _enc_labels(lab, enc), desc, expect)
        if tag:
            ck.violation("random:" + _class_id(tag, tuple(sf.tolist()), desc, sdt, enc), tag,
                         {"scores": np.asarray(scores).tolist(), "targets": lab.astype(int).tolist(), "desc": desc,
                          "score_dtype": sdt, "label_enc": enc})
    return _freeze(ck)


# ----------------------------------------------------------------------------------------------------------
# tdc under strictly increasing rescalings: tiny / huge factors, neighbouring floats, affine maps, mixed magnitudes
# (only EXACTLY equal scores are ties, however close two distinct scores are)
# ----------------------------------------------------------------------------------------------------------
def _scale_id(fam, tag, desc, ties, sdt):
    return "%s:%s/%s/%s/%s" % (fam, tag, "desc" if desc else "asc", "ties" if ties else "noties", sdt)


def _scaled_calls(fam, scores, plain_q, lab, enc, desc, expect, sdt, ties):
    """One real tdc call on rescaled scores: formula + consequences, then exact equality with the result for the
    plain scores (plain_q, may be None). Returns None or (case id, what, input)."""
    tag, det = _tdc_one(scores, _enc_labels(lab, enc), desc, expect)
    if tag is None and plain_q is not None and not np.array_equal(det, plain_q):
        tag, det = "rescaling-changes-q", {"plain": plain_q.tolist(), "rescaled": det.tolist()}
    if tag is None:
        return None
    inp = {"scores": [float(x) for x in scores], "targets": [int(x) for x in lab], "desc": desc,
           "score_dtype": sdt, "label_enc": enc}
    if len(scores) <= 6:                           # (longer records would be cut and could not be replayed)
        inp["detail"] = det
    return _scale_id(fam, tag, desc, ties, sdt), tag, inp


def _scale_shard(job):
    """mode 0: every table of both dtypes; mode k > 0: k rotating tables per dtype (both with the plain rank vector
    in the same dtype as the reference for exact equality); mode -1: one rotating table, float64 twice as often as
    float32, formula only."""
    n, rank_list, mode = job
    calls, digs, vio = 0, [], {}
    rot = 0
    for ranks in rank_list:
        r = np.array(ranks)
        ties = len(set(ranks)) < n
        for lab in itertools.product((False, True), repeat=n):
            nontriv = any(lab) and not all(lab) and len(set(ranks)) > 1
            for desc in (True, False):
                rot += 1
                want = oracle_q(ranks, lab, desc)
                expect = np.array([float(x) for x in want])
                enc = LABEL_ENCS[rot % 3]
                for sdt in ("float64", "float32") if mode >= 0 else (("float64", "float64", "float32")[rot % 3],):
                    tabs = TABLES[sdt]
                    if mode:                       # a rotating selection instead of every table
                        tabs = [tabs[(rot * abs(mode) + j) % len(tabs)] for j in range(abs(mode))]
                    plain_q = None
                    if mode >= 0:
                        # the plain rank vector in the same dtype: its result must be reproduced exactly
                        tag, plain_q = _tdc_one(r.astype(sdt), _enc_labels(lab, "bool"), desc, expect)
                        calls += 1
                        if tag:
                            plain_q = None         # reported by tdc_formula
                    for fam, j, table in tabs:
                        scores = table[r]
                        if n <= 2 or (rot + j) % (4 if n == 3 else 16) == 0:
                            # the literal formula on the rescaled scores themselves (exact rationals)
                            if oracle_q([Fraction(float(x)) for x in scores], lab, desc) != want:
                                raise AssertionError("harness oracle is not scale invariant: %r %r" % (scores, lab))
                        v = _scaled_calls(fam, scores, plain_q, lab, enc, desc, expect, sdt, ties)
                        calls += 1
                        if nontriv:
                            digs.append(_digest((sdt, fam, j, ranks, lab, desc)))
                        if v and (v[0] not in vio or n < vio[v[0]][0]):
                            vio[v[0]] = (n,) + v[1:]
    return calls, digs, vio


def check_tdc_rescaling(tier, seed):
    nmax = 5 if tier == "quick" else 6
    nfull = 3 if tier == "quick" else 4
    per_case = 6 if tier == "quick" else 3
    n_rand = 1200 if tier == "quick" else 10000
    ntab = {d: len(TABLES[d]) for d in TABLES}
    ck = Check(
        "tdc_rescaling", "mokapot.qvalues.tdc",
        "exhaustive: every weak ordering x labelling x direction for n = 1..%d, the rank values 0..5 mapped through "
        "strictly increasing 6-entry tables of the classes %s (%d float64 tables, %d of them with neighbouring gaps "
        "<= 2.2e-16; %d float32 tables, %d such): every table for n <= %d, %d rotating tables per dtype for n = %d, "
        "one rotating table (float64 twice as often as float32) for n = %d; label encoding rotating; random: %d "
        "vectors (seed %d) of length 7..48 on integer lattices with ties, "
        "pushed through random maps of the same classes (factors 1e-300..1e305, chains of neighbouring floats at "
        "magnitudes 1e-300..1e300, subnormals, affine maps, magnitudes mixed over 600 decades), float64 and float32; "
        "tolerance %g relative to the exact rational oracle; for n <= %d and the random lattice vectors also exact "
        "equality with the result for the plain ranks"
        % (nmax, list(FAMILIES), ntab["float64"], N_TINY_GAP_TABLES["float64"], ntab["float32"],
           N_TINY_GAP_TABLES["float32"], nfull, per_case, nfull + 1, nmax, n_rand, seed, REL_TOL, nfull + 1),
        "the tables are verified strictly increasing in exact rationals, so the expected q-values are those of the "
        "rank vector (literal formula in Fractions; re-evaluated on the rescaled scores themselves for n <= 2, "
        "every 4th call for n = 3 and every 16th call above); two scores are tied only if they are exactly equal; random vectors: formula evaluated with "
        "exact float comparisons on the scores; non-trivial = at least one target, one decoy and two distinct scores")
    jobs = []
    for n in range(1, nmax + 1):
        for part in _chunks(weak_orderings(n), 25 if n >= 5 else 10):
            jobs.append((n, part, 0 if n <= nfull else per_case if n == nfull + 1 else -1))
    best = {}
    for calls, digs, vio in _pool(jobs, _scale_shard):
        ck.evaluations += calls
        ck.distinct.update(digs)
        for cid, v in vio.items():
            if cid not in best or v[0] < best[cid][0]:
                best[cid] = v
    for fam, ranks in (("tiny-factor", [0, 1, 1, 2]), ("ulp-neighbours", [3, 0, 2, 1])):
        table = [t for f, _, t in TABLES["float64"] if f == fam][0]
        ck.samples.append({"class": fam, "scores": table[ranks].tolist(), "ranks": ranks, "targets": [1, 0, 1, 0]})
    for fam, scores, ranks, lab, desc, sdt, enc in random_scaled(n_rand, seed):
        sf = scores.astype(np.float64)
        want = oracle_q_fast(sf, lab, desc)
        expect = np.array([float(x) for x in want])
        ties = len(set(sf.tolist())) < len(sf)
        ck.case(("rand", sdt, sf.tolist(), lab.tolist(), desc),
                nontrivial=bool(lab.any() and not lab.all() and len(set(sf.tolist())) > 1))
        plain_q = None
        if ranks is not None:
            if oracle_q_fast(ranks.astype(np.float64), lab, desc) != want:
                raise AssertionError("harness oracle is not scale invariant: %r %r" % (sf.tolist(), ranks.tolist()))
            tag, plain_q = _tdc_one(ranks.astype(sdt), lab, desc, expect)
            if tag:
                plain_q = None
        v = _scaled_calls(fam, scores, plain_q, lab, LABEL_ENCS[enc], desc, expect, sdt, ties)
        if v:
            cid = "random:" + v[0]
            if cid not in best:
                best[cid] = (len(sf),) + v[1:]
    # one reproducer per class, the classes of different families first
    order, seen_fam = [], set()
    for cid in sorted(best, key=lambda c: (best[c][0], "float64" not in c, c)):
        fam = cid.replace("random:", "").split(":")[0]
        order.append((fam in seen_fam, len(order), cid))
        seen_fam.add(fam)
    for _, _, cid in sorted(order):
        ck.violation(cid, best[cid][1], best[cid][2])
    return _freeze(ck)


# ----------------------------------------------------------------------------------------------------------
# _update_labels
# ----------------------------------------------------------------------------------------------------------
def _q32(q):
    """the float32 rounding of an exact q-value (only used to NAME the class of a mismatch)"""
    return float(np.float32(float(q)))


def _labels_one(scores, lab, desc, fdr, want_q, as_series=False):
    """One real _update_labels call against the oracle. Returns (class id or None, what, nontrivial)."""
    want = oracle_labels(want_q, lab, fdr)
    s = np.asarray(scores, dtype=float)
    t = np.asarray(lab, dtype=bool)
    if as_series:
        import pandas as pd
        s, t = pd.Series(s), pd.Series(t)
    try:
        got = np.asarray(_ds()._update_labels(s, t, float(fdr), desc))
    except Exception as e:                               # noqa: BLE001
        return "exception:" + type(e).__name__, str(e)[:200], False
    nontrivial = len(set(want)) > 1
    if got.shape != (len(want),):
        return "shape", "returned shape %r" % (got.shape,), nontrivial
    thr = float(fdr)
    for i, (w, g) in enumerate(zip(want, got.tolist())):
        if w == g:
            continue
        if lab[i] and g in (0.0, 1.0):
            as32 = 1 if _q32(want_q[i]) <= thr else 0
            if as32 == g and w == 1:
                return ("threshold-tie-rejected-float32",
                        "target %d has q = %s <= eval_fdr = %r but is labelled 0 (its q-value was rounded up to "
                        "float32 %r before the comparison)" % (i, want_q[i], fdr, float(np.float32(float(want_q[i])))),
                        nontrivial)
            if as32 == g and w == 0:
                return ("near-threshold-accepted-float32",
                        "target %d has q = %s > eval_fdr = %r but is labelled +1 (its q-value was rounded down to "
                        "float32 %r before the comparison)" % (i, want_q[i], fdr, float(np.float32(float(want_q[i])))),
                        nontrivial)
        return ("label-mismatch:%s:%d->%g" % ("target" if lab[i] else "decoy", w, g),
                "PSM %d: expected label %d, got %g (q = %s, eval_fdr = %r)" % (i, w, g, want_q[i], fdr), nontrivial)
    return None, None, nontrivial


def _fdrs_for(want_q, full, rot=0):
    """eval_fdr values for one case: every attained q-value (as a float), the midpoints between consecutive
    attained values and one value below the smallest (so that every class of thresholds is represented);
    full: also the fixed list and both float64 neighbours of every attained value; otherwise one fixed value and
    one neighbour, rotating with the case number."""
    qs = sorted(set(want_q))
    out = [float(q) for q in qs]
    out += [float((a + b) / 2) for a, b in zip(qs, qs[1:])] + [float(qs[0] / 2)]
    nb = []
    for q in qs:
        nb += [float(np.nextafter(float(q), 0.0)), float(np.nextafter(float(q), 2.0))]
    if full:
        out += list(FIXED_FDRS) + nb
    else:
        out += [FIXED_FDRS[rot % len(FIXED_FDRS)], nb[rot % len(nb)]]
    return list(dict.fromkeys(out))


def _labels_shard(job):
    n, rank_list, full = job
    calls, digs, vio = 0, [], {}
    k = 0
    for ranks in rank_list:
        for lab in itertools.product((False, True), repeat=n):
            for desc in (True, False):
                want_q = oracle_q(ranks, lab, desc)
                k += 1
                for fdr in _fdrs_for(want_q, full, k):
                    cid, what, nontriv = _labels_one(ranks, lab, desc, fdr, want_q, as_series=(calls % 7 == 0))
                    calls += 1
                    if nontriv:
                        digs.append(_digest((ranks, lab, desc, fdr)))
                    if cid:
                        rank = (fdr not in FIXED_FDRS, fdr in (1 / 3, 2 / 3), n)   # everyday threshold, then small n
                        if cid not in vio or rank < vio[cid][0]:
                            vio[cid] = (rank, what, {"scores": list(ranks), "targets": [int(x) for x in lab],
                                                     "desc": desc, "eval_fdr": fdr})
    return calls, digs, vio


def check_update_labels(tier, seed):
    nmax = 5 if tier == "quick" else 6
    n_rand = 300 if tier == "quick" else 5000
    ck = Check(
        "update_labels", "mokapot.dataset._update_labels",
        "exhaustive: every weak ordering x labelling x direction for n = 1..%d (float64 scores, bool targets, every "
        "7th call as pandas Series) x eval_fdr = every attained q-value, the midpoints between them, one value below "
        "the smallest; for n <= 4 also %s and both float64 neighbours of every attained q-value, for n >= 5 one of "
        "each (rotating); random: %d vectors (seed %d) of length 7..80 with ties, 6 such eval_fdr values each"
        % (nmax, [round(f, 4) for f in FIXED_FDRS], n_rand, seed),
        "expected label: -1 decoy, +1 target whose exact rational q-value (oracle, not tdc), rounded to the nearest "
        "double, is <= eval_fdr, 0 otherwise; non-trivial = the expected label vector has at least two distinct values")
    jobs = []
    for n in range(1, nmax + 1):
        for part in _chunks(weak_orderings(n), 12 if n >= 5 else 100):
            jobs.append((n, part, n <= 4))
    best = {}                                     # one reproducer per class: everyday threshold first, then small n
    for calls, digs, vio in _pool(jobs, _labels_shard):
        ck.evaluations += calls
        ck.distinct.update(digs)
        for cid, v in vio.items():
            if cid not in best or v[0] < best[cid][0]:
                best[cid] = v
    seen = set(best)
    for cid in sorted(best):
        ck.violation(cid, best[cid][1], best[cid][2])
    ck.samples = [{"scores": [0, 1, 2, 2], "targets": [0, 1, 1, 1], "desc": True, "eval_fdr": 0.5}]
    rng = np.random.default_rng(seed + 1)
    for k in range(n_rand):
        n = int(rng.integers(7, 81))
        scores = np.round(rng.normal(0, 2, n) * 8, int(rng.integers(-1, 1))) / 8     # ties; exact binary fractions
        lab = rng.random(n) < rng.choice([0.3, 0.5, 0.8])
        desc = bool(k % 2)
        scores = scores + (1.5 if desc else -1.5) * lab
        want_q = oracle_q_fast(scores, lab, desc)
        fdrs = _fdrs_for(want_q, True)
        for fdr in [fdrs[i] for i in rng.choice(len(fdrs), size=min(6, len(fdrs)), replace=False)]:
            cid, what, nontriv = _labels_one(scores, lab, desc, fdr, want_q, as_series=(k % 7 == 0))
            ck.case(("rand", scores.tolist(), lab.tolist(), desc, fdr), nontrivial=nontriv)
            if cid and cid not in seen:
                seen.add(cid)
                ck.violation(cid, what, {"scores": scores.tolist(), "targets": lab.astype(int).tolist(),
                                         "desc": desc, "eval_fdr": fdr})
    return _freeze(ck)


# ----------------------------------------------------------------------------------------------------------
def REPLAY(check_name, violation):
    inp = violation["input"]
    if isinstance(inp, str):
        inp = json.loads(inp)
    scores = inp["scores"]
    lab = [bool(x) for x in inp["targets"]]
    desc = bool(inp["desc"])
    if check_name in ("tdc_formula", "tdc_rescaling"):
        # (tdc_rescaling: the formula on the recorded scores with exact comparisons - two scores one unit in the last
        # place apart are different scores)
        sdt = inp.get("score_dtype", "float64")
        arr = np.array(scores).astype(sdt)
        want = oracle_q_fast(arr.astype(float), lab, desc)
        tag, det = _tdc_one(arr, _enc_labels(lab, inp.get("label_enc", "bool")), desc,
                            np.array([float(x) for x in want]))
        return {"violated": tag is not None, "detail": tag, "want": [str(x) for x in want],
                "got": det.tolist() if tag is None else det}
    if check_name == "update_labels":
        want_q = oracle_q_fast(np.array(scores, dtype=float), lab, desc)
        cid, what, _ = _labels_one(np.array(scores, dtype=float), lab, desc, inp["eval_fdr"], want_q)
        return {"violated": cid is not None, "case": cid, "detail": what}
    return {"violated": None, "note": "no replay for %s" % check_name}


if __name__ == "__main__":
    a = args()
    np.random.seed(a.seed)
    emit([check_tdc_formula(a.tier, a.seed), check_tdc_rescaling(a.tier, a.seed), check_update_labels(a.tier, a.seed)],
         ["oracle: exact rational evaluation of the defining formula; candidate thresholds = attained scores, "
          "midpoints and one value beyond each end (the counts are step functions of the threshold)",
          "tdc results are compared with %g relative tolerance because tdc stores the FDR in a float32 buffer" % REL_TOL,
          "lengths above %d are only sampled (random vectors up to 60/80 elements)" % (5 if a.tier == "quick" else 6),
          "tdc_rescaling: integer score dtypes have no tiny/huge rescalings (their tables touching the dtype limits "
          "are in tdc_formula); tied = exactly equal as numbers; no NaN/inf scores (the statement says finite)"])
