"""C13 bounded stand-in: chunked reading equals whole reading; writers lose and reorder nothing.

Runs the real readers / writers of mokapot.tabular_data and mokapot.streaming on the installed pandas / pyarrow.
The oracle is the in-memory table the files were produced from (written with pandas / pyarrow directly, never
through the code under test): every reader must deliver exactly table[columns], whole and chunk-wise, with a row
index 0..n-1; every writer's finalised file (read back with pandas / pyarrow directly and through
get_associated_reader()) must hold exactly the appended rows in order. Frames whose column layout differs from the
writer's column list (other order, an extra, a missing or a differently named column) must be stored by NAME or be
refused (an exception): never stored positionally, padded or truncated.
"""
import json
import logging
import math
import random
import sqlite3
import warnings
from pathlib import Path

import numpy as np
import pandas as pd
import pyarrow as pa
import pyarrow.parquet as pq

from harness.common import Check, args, emit
from harness.datasets import scratch

warnings.filterwarnings("ignore")
logging.disable(logging.CRITICAL)

COLS = ["i", "f", "s", "b", "g"]
PA_TYPES = {"i": pa.int64(), "f": pa.float64(), "s": pa.string(), "b": pa.bool_(), "g": pa.float64()}
MAP = {"i": "I2", "s": "S2"}                     # partial rename used by the ColumnMappedReader cases
_FLOATS = [1 / 3, 4e-20, 1e20, -2.5, 0.1, 123456.789, -1e-7, 2.0, 0.0, 7.25]
_WORDS = ["pep", "K.AB C.R", "x,y", "sp|Q1|A_HUMAN", "a:b", "Zz", "q-1", "m[16]"]


def make_table(n, seed):
    """n rows, int / float / string / bool / float columns, default RangeIndex; no NaN, no text that a CSV
    parser would re-interpret (value round-tripping through CSV text is a library matter)."""
    rng = random.Random(seed * 1000 + n)
    return pd.DataFrame({
        "i": pd.Series([rng.choice([-1, 1]) * rng.randrange(0, 10 ** rng.randrange(1, 13)) for _ in range(n)],
                       dtype="int64"),
        "f": pd.Series([rng.choice(_FLOATS) * rng.choice([1, -1, 3]) + rng.random() for _ in range(n)],
                       dtype="float64"),
        "s": pd.Series(["%s_%d" % (rng.choice(_WORDS), rng.randrange(100)) for _ in range(n)], dtype="object"),
        "b": pd.Series([rng.random() < 0.5 for _ in range(n)], dtype="bool"),
        "g": pd.Series([float(rng.randrange(-50, 50)) / 4 for _ in range(n)], dtype="float64"),
    })


# ------------------------------------------------------------------------------------------------ oracle
def _kind(v):
    if isinstance(v, (bool, np.bool_)):
        return "b"
    if isinstance(v, (int, np.integer)):
        return "i"
    if isinstance(v, (float, np.floating)):
        return "f"
    if isinstance(v, str):
        return "s"
    return type(v).__name__


def _val_eq(got, exp):
    if _kind(got) != _kind(exp):
        return False
    if _kind(exp) == "f":
        return math.isclose(float(got), float(exp), rel_tol=1e-12, abs_tol=1e-12)
    return got == exp


def diff_frame(got, exp_cols, exp_rows, check_index=True, labels=None):
    """None if `got` is a DataFrame with exactly the columns exp_cols (in order), the rows exp_rows (list of
    tuples, in order, values unchanged) and index 0..n-1 (or, if given, the index labels `labels`, in order);
    otherwise (class, text)."""
    if not isinstance(got, pd.DataFrame):
        return "not-a-frame", "result is %s" % type(got).__name__
    if [str(c) for c in got.columns] != list(exp_cols):
        return "columns-differ", "columns %s, expected %s" % (list(got.columns), list(exp_cols))
    if len(got) != len(exp_rows):
        return "row-count-differs", "%d rows, expected %d" % (len(got), len(exp_rows))
    cols = [got.iloc[:, k].tolist() for k in range(len(exp_cols))]
    for r, exp in enumerate(exp_rows):
        for k, e in enumerate(exp):
            if not _val_eq(cols[k][r], e):
                return "values-differ", "row %d column %s: %r, expected %r" % (r, exp_cols[k], cols[k][r], e)
    if check_index and labels is not None:
        have = list(got.index)
        if len(have) != len(labels) or any(type(h) is bool or h != e for h, e in zip(have, labels)):
            return "index-labels-differ", "index %s, expected the labels of the frame %s" % (have, list(labels))
    elif check_index and list(got.index) != list(range(len(exp_rows))):
        return "index-not-continuing", "index %s, expected 0..%d" % (list(got.index), len(exp_rows) - 1)
    return None


def rows_of(df, cols):
    lists = [df[c].tolist() for c in cols]
    return [tuple(col[r] for col in lists) for r in range(len(df))]


def concat_chunks(chunks):
    """Concatenation of the delivered chunks (keeping their index); zero chunks = the empty table."""
    if not chunks:
        return None
    return pd.concat(chunks, axis=0)


# ------------------------------------------------------------------------------------------------ readers
def _write_csv(df, path):
    df.to_csv(path, sep="\t", index=False)
    return Path(path)


def _write_parquet(df, path, row_group):
    tab = pa.Table.from_pandas(df, preserve_index=False,
                               schema=pa.schema([(c, PA_TYPES[c]) for c in df.columns]))
    pq.write_table(tab, path, row_group_size=max(1, row_group))
    return Path(path)


def build_readers(df, d):
    """name -> (reader, list of all column names of that reader, dict name->expected column values)"""
    from mokapot.tabular_data import (CSVFileReader, ParquetFileReader, DataFrameReader, ColumnMappedReader,
                                      TabularDataReader)
    from mokapot.streaming import JoinedTabularDataReader, ComputedTabularDataReader, join_readers
    n = len(df)
    base = {c: df[c].tolist() for c in COLS}
    out = {}
    csv = _write_csv(df, d / "t.csv")
    out["csv"] = (CSVFileReader(csv), COLS, base)
    out["csv-from_path"] = (TabularDataReader.from_path(csv), COLS, base)
    rgs = sorted({1, 3, max(n, 1)})
    pqs = {}
    for rg in rgs:
        pqs[rg] = _write_parquet(df, d / ("t_rg%d.parquet" % rg), rg)
        out["parquet-rg%d" % rg] = (ParquetFileReader(pqs[rg]), COLS, base)
    out["dataframe"] = (DataFrameReader(df.copy()), COLS, base)
    # renamed
    mcols = [MAP.get(c, c) for c in COLS]
    mbase = {MAP.get(c, c): v for c, v in base.items()}
    out["mapped-csv"] = (TabularDataReader.from_path(csv, column_map=dict(MAP)), mcols, mbase)
    out["mapped-parquet-rg3"] = (ColumnMappedReader(ParquetFileReader(pqs[3]), dict(MAP)), mcols, mbase)
    out["mapped-dataframe"] = (ColumnMappedReader(DataFrameReader(df.copy()), dict(MAP)), mcols, mbase)
    # joined: the columns are spread over a text file, a Parquet file (row groups of 3) and a frame
    a = _write_csv(df[["i", "s"]], d / "a.csv")
    b = _write_parquet(df[["f", "b"]], d / "b.parquet", 3)
    jcols = ["i", "s", "f", "b", "g"]
    out["joined-csv+parquet+frame"] = (
        JoinedTabularDataReader([CSVFileReader(a), ParquetFileReader(b), DataFrameReader(df[["g"]].copy())]),
        jcols, base)
    out["joined-frame+frame"] = (
        join_readers([DataFrameReader(df[["b", "g", "f"]].copy()), DataFrameReader(df[["s", "i"]].copy())]),
        ["b", "g", "f", "s", "i"], base)
    b1 = _write_parquet(df[["f", "b"]], d / "b1.parquet", 1)
    g1 = _write_parquet(df[["g"]], d / "g1.parquet", max(n, 1))
    out["joined-parquet+parquet"] = (
        JoinedTabularDataReader([ParquetFileReader(b1), ParquetFileReader(g1)]), ["f", "b", "g"], base)
    # computed column
    cbase = dict(base)
    cbase["c"] = [2 * v + 1 for v in base["i"]]
    out["computed-csv"] = (ComputedTabularDataReader(CSVFileReader(csv), "c", np.dtype("int64"),
                                                     lambda t: t["i"] * 2 + 1), COLS + ["c"], cbase)
    out["computed-parquet-rg3"] = (ComputedTabularDataReader(ParquetFileReader(pqs[3]), "c", pa.int64(),
                                                             lambda t: t["i"] * 2 + 1), COLS + ["c"], cbase)
    out["computed-dataframe"] = (ComputedTabularDataReader(DataFrameReader(df.copy()), "c", np.dtype("int64"),
                                                           lambda t: t["i"] * 2 + 1), COLS + ["c"], cbase)
    kbase = dict(mbase)
    kbase["c"] = [True] * n                       # the way brew_rollup adjoins is_decoy: a constant column
    out["computed-const-mapped-csv"] = (
        ComputedTabularDataReader(TabularDataReader.from_path(csv, column_map=dict(MAP)), "c", np.dtype("bool"),
                                  lambda t: np.full(len(t), True)), mcols + ["c"], kbase)
    return out


def column_requests(name, allcols):
    """None = default (all columns); explicit lists = subsets in several orders."""
    if name.startswith("computed"):
        i = "I2" if "I2" in allcols else "i"
        s = "S2" if "S2" in allcols else "s"
        # the computed column 'c' is derived from column i, which is therefore part of every request
        return [list(allcols), ["c", i], [i, "c"], ["c", s, i], ["g", "c", "b", i, "f"], [i]]
    reqs = [None, list(allcols), list(reversed(allcols))]
    reqs.append([allcols[2], allcols[0]])
    reqs.append([allcols[-1]])
    if len(allcols) >= 4:
        reqs.append([allcols[3], allcols[1], allcols[0]])
    return reqs


def _exp_rows(colvals, cols, n):
    return [tuple(colvals[c][r] for c in cols) for r in range(n)]


def run_reader_case(reader, allcols, colvals, n, cols, chunk_size, with_read=True, labels=None):
    """-> list of (class, text) problems for one (reader, columns, chunk size); labels: the expected index
    labels (None = 0..n-1)."""
    want = list(allcols) if cols is None else list(cols)
    exp = _exp_rows(colvals, want, n)
    probs = []
    try:
        if with_read:
            whole = reader.read() if cols is None else reader.read(columns=list(cols))
            bad = diff_frame(whole, want, exp, labels=labels)
            if bad:
                probs.append(("read-" + bad[0], "read(): " + bad[1]))
    except Exception as e:                                            # noqa: BLE001
        probs.append(("read-raises-" + type(e).__name__, "read(): %s" % str(e)[:150]))
    try:
        if cols is None:
            chunks = list(reader.get_chunked_data_iterator(chunk_size))
        else:
            chunks = list(reader.get_chunked_data_iterator(chunk_size, columns=list(cols)))
        cat = concat_chunks(chunks)
        if cat is None:
            if n != 0:
                probs.append(("chunks-row-count-differs", "no chunk delivered for %d rows" % n))
        else:
            for ch in chunks:
                if [str(c) for c in ch.columns] != want:
                    probs.append(("chunks-columns-differ", "chunk columns %s, expected %s"
                                  % (list(ch.columns), want)))
                    break
            bad = diff_frame(cat, want, exp, labels=labels)
            if bad:
                probs.append(("chunks-" + bad[0], "chunks(%d): %s" % (chunk_size, bad[1])))
    except Exception as e:                                            # noqa: BLE001
        probs.append(("chunks-raises-" + type(e).__name__, "chunks(%d): %s" % (chunk_size, str(e)[:150])))
    return probs


def _sizes(tier):
    return list(range(0, 9)) if tier == "quick" else list(range(0, 13))


READER_GROUPS = [["csv", "csv-from_path", "mapped-csv"], ["parquet-rg1", "parquet-rg3", "parquet-rgn"],
                 ["dataframe", "mapped-parquet-rg3", "mapped-dataframe"],
                 ["joined-csv+parquet+frame", "joined-frame+frame", "joined-parquet+parquet"],
                 ["computed-csv", "computed-const-mapped-csv"],
                 ["computed-parquet-rg3", "computed-dataframe", "dedicated"]]


def _joined_class(name, readers, cols):
    """Names the class of request for the case id: a joined reader asked for columns of only some of its parts."""
    if not name.startswith("joined") or cols is None:
        return ""
    parts = readers[name][0].readers
    idle = [type(p).__name__ for p in parts if not set(p.get_column_names()) & set(cols)]
    if idle:
        # the kind of sub-reader that is asked for none of its columns is part of the class (a CSV part and a
        # Parquet part fail for different reasons)
        kind = "parquet" if any("Parquet" in t for t in idle) else ("csv" if any("CSV" in t for t in idle) else "other")
        return "no-column-from-one-%s-subreader-" % kind
    return ""


def _reader_task(task):
    """One (row count, group of readers): returns the events to replay into the Check (deterministic order)."""
    n, seed, group = task
    ev = _Events()
    df = make_table(n, seed)
    with scratch("c13r_") as d:
        readers = build_readers(df, d)
        for name, (reader, allcols, colvals) in readers.items():
            gname = "parquet-rgn" if name == "parquet-rg%d" % max(n, 1) and name not in ("parquet-rg1", "parquet-rg3") \
                else name
            if gname not in group:
                continue
            for cols in column_requests(name, allcols):
                for cs in range(1, n + 2):
                    ev.case((name, n, cols, cs), nontrivial=n >= 2 and cs < n)
                    # read() does not depend on the chunk size: evaluated with the first chunk size only
                    for cls, text in run_reader_case(reader, allcols, colvals, n, cols, cs, with_read=(cs == 1)):
                        ev.violation("%s-%s%s" % (name.split("-")[0], _joined_class(name, readers, cols), cls),
                                     "%s: %s" % (name, text),
                                     {"reader": name, "n": n, "seed": seed, "columns": cols, "chunk_size": cs})
        if n == 3 and "dedicated" in group:
            _dedicated_computed_cases(ev, readers, n, seed)
    return ev.events


class _Events:
    """Recorder with the interface of Check, so that worker processes can report back."""
    def __init__(self):
        self.events = []

    def case(self, key, nontrivial=True):
        self.events.append(("case", key, nontrivial))

    def violation(self, case, what, inputs):
        self.events.append(("violation", case, what, inputs))


def _worker_init():
    pa.set_cpu_count(1)
    pa.set_io_thread_count(1)


def _pool_map(func, tasks):
    import multiprocessing as mp
    # imported once here and inherited by the forked workers (otherwise every worker of every pool imports it anew)
    import mokapot.tabular_data, mokapot.streaming, mokapot.confidence_writer  # noqa: F401, E401
    with mp.get_context("fork").Pool(min(14, len(tasks)), initializer=_worker_init) as pool:
        return pool.map(func, tasks, chunksize=1)


def _replay_events(ck, event_lists):
    """event_lists in the order in which they are to be replayed (small inputs first, so that the smallest
    reproducers are the ones that are kept); one violation of every distinct case id goes first."""
    viol, seen = [], set()
    for events in event_lists:
        for e in events:
            if e[0] == "case":
                ck.case(e[1], nontrivial=e[2])
            else:
                viol.append(e)
    first = []
    rest = []
    for e in viol:                                  # one violation of every distinct case id first
        (rest if e[1] in seen else first).append(e)
        seen.add(e[1])
    for e in first + rest:
        ck.violation(e[1], e[2], e[3])


def _run_tasks(ck, func, tasks):
    """tasks are listed big-first (load balance); events are replayed small-first in a fixed order, so the
    result does not depend on scheduling and the smallest reproducers are the ones that are kept."""
    _replay_events(ck, list(reversed(_pool_map(func, tasks))))


def check_readers(tier, seed):
    ns = _sizes(tier)
    ck = Check("readers_chunked_equals_whole",
               "mokapot.tabular_data.{CSVFileReader,ParquetFileReader,DataFrameReader,ColumnMappedReader}, "
               "mokapot.streaming.{JoinedTabularDataReader,ComputedTabularDataReader}: read / "
               "get_chunked_data_iterator",
               "exhaustive over: one seeded table (seed %d) per row count 0..%d with int/float/string/bool/float "
               "columns; every chunk size 1..n+1; 6 column requests (default, all, reversed, 3 subsets in permuted "
               "order); 17 reader constructions (text x2, Parquet with row groups 1/3/n, frame, renamed x3, "
               "joined x3, computed x4); plus 2 dedicated computed-reader sub-cases on 3 rows (default columns; "
               "only the computed column)" % (seed, ns[-1]),
               "oracle = the in-memory table the files were written from: read(columns) and the concatenated "
               "chunks must both equal table[columns] (ints/strings/bools exactly, floats 1e-12) with index "
               "0..n-1; non-trivial = at least 2 rows and chunk size < n (more than one chunk)")
    tasks = [(n, seed, g) for n in reversed(ns) for g in reversed(READER_GROUPS)]
    _run_tasks(ck, _reader_task, tasks)
    return ck


def _dedicated_computed_cases(ck, readers, n, seed):
    # (1) known: the statement says "any reader", the computed reader cannot be used with its default columns
    reader, allcols, colvals = readers["computed-dataframe"]
    ck.case(("computed-dataframe", n, "default-columns"), nontrivial=True)
    probs = run_reader_case(reader, allcols, colvals, n, None, 2)
    if probs:
        ck.violation("computed-reader-default-columns",
                     "ComputedTabularDataReader with default columns=None: " + "; ".join(t for _, t in probs),
                     {"reader": "computed-dataframe", "n": n, "seed": seed, "columns": None, "chunk_size": 2})
    # (2) a request for the computed column alone (constant column, needs no input column)
    for name in ("computed-const-mapped-csv", "computed-const-parquet-rg1", "computed-const-dataframe"):
        reader, allcols, colvals = _const_reader(name, readers)
        for cs in (1, 2, n + 1):
            ck.case((name, n, ["c"], cs), nontrivial=cs < n)
            probs = run_reader_case(reader, allcols, colvals, n, ["c"], cs)
            for cls, text in probs:
                src_kind = "parquet" if "parquet" in name else ("csv" if "csv" in name else "frame")
                ck.violation("computed-column-only-request-over-%s" % src_kind,
                             "%s columns=['c']: %s (%s)" % (name, text, cls),
                             {"reader": name, "n": n, "seed": seed, "columns": ["c"], "chunk_size": cs})


def _const_reader(name, readers):
    from mokapot.streaming import ComputedTabularDataReader
    if name in readers:
        return readers[name]
    src = {"computed-const-parquet-rg1": "parquet-rg1", "computed-const-dataframe": "dataframe"}[name]
    base_reader, allcols, colvals = readers[src]
    n = len(colvals["i"])
    vals = dict(colvals)
    vals["c"] = [True] * n
    return (ComputedTabularDataReader(base_reader, "c", np.dtype("bool"), lambda t: np.full(len(t), True)),
            list(allcols) + ["c"], vals)


# ------------------------------------------------------------------------------------------------ frames with an index
# The in-memory frame reader is handed frames as they occur in a pipeline: filtered (index with gaps), re-sorted
# (permuted index), cut out of a larger frame (offset index), labelled with strings. "Equals reading the table in
# one piece ... with a row index that continues across chunks" then means: the rows in frame ORDER (by position),
# carrying the frame's own index labels, whole and chunk-wise.  Only readers whose parts all carry that same index
# are judged (frame, renamed frame, frames joined with frames, computed column over a frame): joining such a frame
# with a file (labels 0..n-1) has no unambiguous meaning in the statement.
INDEX_KINDS = ["gapped", "permuted", "reversed", "offset-by-one", "offset-far", "strings"]


def make_indexed_frame(n, seed, kind):
    """-> (frame with n rows whose index is not 0..n-1, {column: expected values}, expected index labels); the
    expected values / labels are taken from python lists by position, not from the frame."""
    rng = random.Random(seed * 1000 + 13 * n + INDEX_KINDS.index(kind))
    if kind == "gapped":                                  # a filtered frame: n of the rows 1..2n+2 of a larger table
        big = make_table(2 * n + 3, seed + 41)
        pos = sorted(rng.sample(range(1, len(big)), n))
        mask = pd.Series([r in pos for r in range(len(big))], dtype="bool")
        return big[mask], {c: [big[c].tolist()[p] for p in pos] for c in COLS}, pos
    t = make_table(n, seed + 41)
    vals = {c: t[c].tolist() for c in COLS}
    if kind == "permuted":                                # a frame re-sorted by a score column (best first)
        order = sorted(range(n), key=lambda r: -vals["f"][r])
        if order == list(range(n)):                       # already sorted: sort the other way round
            order = sorted(range(n), key=lambda r: vals["f"][r])
        frame = t.iloc[order]                             # = sort_values("f") with ties in a defined order
    elif kind == "reversed":
        order = list(range(n - 1, -1, -1))
        frame = t.iloc[::-1]
    else:
        order = list(range(n))
        if kind == "offset-by-one":                       # labels 1..n: overlap the positions, shifted by one
            labels = list(range(1, n + 1))
            frame = t.set_axis(pd.RangeIndex(1, n + 1), axis=0)
        elif kind == "offset-far":                        # the tail of a larger frame
            start = 1000 + 7 * seed + n
            labels = list(range(start, start + n))
            frame = t.set_axis(pd.RangeIndex(start, start + n), axis=0)
        elif kind == "strings":
            labels = ["psm_%d" % k for k in range(n)]
            rng.shuffle(labels)
            frame = t.set_axis(pd.Index(labels, dtype="object"), axis=0)
        else:
            raise ValueError(kind)
        return frame, vals, labels
    return frame, {c: [vals[c][r] for r in order] for c in COLS}, order


def build_frame_readers(df, base):
    """Readers over the frame df (and over column slices of it, which carry the same index)."""
    from mokapot.tabular_data import DataFrameReader, ColumnMappedReader
    from mokapot.streaming import ComputedTabularDataReader, join_readers
    n = len(df)
    out = {"dataframe": (DataFrameReader(df.copy()), COLS, base)}
    mcols = [MAP.get(c, c) for c in COLS]
    mbase = {MAP.get(c, c): v for c, v in base.items()}
    out["mapped-dataframe"] = (ColumnMappedReader(DataFrameReader(df.copy()), dict(MAP)), mcols, mbase)
    out["joined-frame+frame"] = (
        join_readers([DataFrameReader(df[["b", "g", "f"]].copy()), DataFrameReader(df[["s", "i"]].copy())]),
        ["b", "g", "f", "s", "i"], base)
    cbase = dict(base)
    cbase["c"] = [2 * v + 1 for v in base["i"]]
    out["computed-dataframe"] = (ComputedTabularDataReader(DataFrameReader(df.copy()), "c", np.dtype("int64"),
                                                           lambda t: t["i"] * 2 + 1), COLS + ["c"], cbase)
    kbase = dict(mbase)
    kbase["c"] = [True] * n
    out["computed-const-mapped-dataframe"] = (
        ComputedTabularDataReader(ColumnMappedReader(DataFrameReader(df.copy()), dict(MAP)), "c", np.dtype("bool"),
                                  lambda t: np.full(len(t), True)), mcols + ["c"], kbase)
    return out


def _indexed_frame_task(task):
    n, seed, kind = task
    ev = _Events()
    df, base, labels = make_indexed_frame(n, seed, kind)
    for name, (reader, allcols, colvals) in build_frame_readers(df, base).items():
        for cols in column_requests(name, allcols):
            for cs in range(1, n + 2):
                ev.case((name, kind, n, cols, cs), nontrivial=n >= 2 and cs < n)
                for cls, text in run_reader_case(reader, allcols, colvals, n, cols, cs, with_read=(cs == 1),
                                                 labels=labels):
                    ev.violation("%s-%s-index-%s" % (name, kind, cls), "%s over a frame with %s index: %s"
                                 % (name, kind, text),
                                 {"reader": name, "n": n, "seed": seed, "index_kind": kind, "columns": cols,
                                  "chunk_size": cs})
    return ev.events


def check_frame_readers_indexed(tier, seed):
    ns = _sizes(tier)
    ck = Check("frame_readers_indexed_tables",
               "mokapot.tabular_data.{DataFrameReader,ColumnMappedReader}, mokapot.streaming."
               "{JoinedTabularDataReader,ComputedTabularDataReader,join_readers}: read / get_chunked_data_iterator",
               "exhaustive over: one seeded frame (seed %d) per row count 0..%d and index kind (gapped = a boolean-"
               "filtered larger frame; permuted = sorted by a score column; reversed; offset-by-one = labels 1..n; "
               "offset-far = labels 1000+..; strings = shuffled text labels; labels always unique); every chunk "
               "size 1..n+1; the column requests of readers_chunked_equals_whole (default, all, reversed, subsets in "
               "permuted order); 5 readers whose parts all carry the frame's index (frame, renamed frame, two column "
               "slices of the frame joined, computed column over the frame, constant computed column over the renamed "
               "frame)" % (seed, ns[-1]),
               "oracle = the rows of the frame by POSITION with the frame's own index labels (both taken from python "
               "lists, not from the frame): read(columns) and the concatenated chunks must both equal "
               "table[columns] (ints/strings/bools exactly, floats 1e-12) including the index labels in order; "
               "non-trivial = at least 2 rows and chunk size < n (more than one chunk)")
    tasks = [(n, seed, kind) for n in reversed(ns) for kind in reversed(INDEX_KINDS)]
    _run_tasks(ck, _indexed_frame_task, tasks)
    return ck


# ------------------------------------------------------------------------------------------------ writers
def append_plans(n, rng, how_many):
    """Append sequences as lists of (start, stop) row ranges covering 0..n in order; empty ranges = empty appends."""
    plans = [[(k, k + 1) for k in range(n)],                        # single rows
             [(0, n)]]                                              # one append
    if n >= 1:
        plans.append([(0, 0), (0, 1), (1, 1), (1, n), (n, n)])      # empty first / middle / last
    while len(plans) < how_many:
        cuts = sorted(rng.randrange(0, n + 1) for _ in range(rng.randrange(0, n + 3)))
        edges = [0] + cuts + [n]
        plan = [(edges[k], edges[k + 1]) for k in range(len(edges) - 1)]
        plans.append(plan)
    out, seen = [], set()
    for p in plans:
        if tuple(p) not in seen:
            seen.add(tuple(p))
            out.append(p)
    return out


def make_writer(kind, path, cols, buffer_size, via_factory):
    from mokapot.tabular_data import (CSVFileWriter, ParquetFileWriter, BufferedWriter, TabularDataWriter, TableType)
    fmt, buf = kind
    types = [PA_TYPES[c] for c in cols] if fmt == "parquet" else None
    if via_factory:
        kw = {"column_types": types} if types is not None else {}
        if buf is None:
            return TabularDataWriter.from_suffix(path, list(cols), **kw)
        return TabularDataWriter.from_suffix(path, list(cols), buffer_size=buffer_size,
                                             buffer_type=TableType[buf], **kw)
    inner = (ParquetFileWriter(path, list(cols), types) if fmt == "parquet" else CSVFileWriter(path, list(cols)))
    if buf is None:
        return inner
    return BufferedWriter(inner, buffer_size, TableType[buf])


def feed(writer, buf, df, plan, style):
    """Drive one history. style: 'calls' = initialize/append.../finalize, 'with' = context manager,
    'write' = the one-shot write()."""
    def pieces():
        for (a, b) in plan:
            part = df.iloc[a:b]
            if buf in (None, "DataFrame"):
                yield part
            elif buf == "Dicts":
                recs = part.to_dict(orient="records")
                yield recs[0] if (len(recs) == 1 and (a + len(plan)) % 2 == 0) else recs   # dict or list[dict]
            else:                                        # Records: the class accepts one numpy.record per append
                for rec in part.to_records(index=False):
                    yield rec
    if style == "write":
        writer.write(df)
        return
    if style == "with":
        with writer:
            for p in pieces():
                writer.append_data(p)
        return
    writer.initialize()
    for p in pieces():
        writer.append_data(p)
    writer.finalize()


def read_back(fmt, path):
    if fmt == "parquet":
        return pq.read_table(path).to_pandas()
    return pd.read_csv(path, sep="\t", index_col=False)


def run_writer_case(d, df, cols, kind, buffer_size, plan, style, via_factory, stale=False):
    fmt, buf = kind
    path = Path(d) / ("out.parquet" if fmt == "parquet" else "out.csv")
    if path.exists():
        path.unlink()
    if stale:                      # initialize must truncate: a finalised file holds only the appended rows
        (_write_parquet if fmt == "parquet" else (lambda t, p, _rg: _write_csv(t, p)))(df[cols].iloc[:2], path, 1)
    sub = df[cols]
    exp = rows_of(sub, cols)
    probs = []
    try:
        w = make_writer(kind, path, cols, buffer_size, via_factory)
        feed(w, buf, sub, plan, style)
    except Exception as e:                                            # noqa: BLE001
        return [("raises-" + type(e).__name__, "%s" % str(e)[:200])]
    try:
        got = read_back(fmt, path)
        bad = diff_frame(got, cols, exp, check_index=False)
        if bad:
            probs.append(("file-" + bad[0], "file content: " + bad[1]))
    except Exception as e:                                            # noqa: BLE001
        probs.append(("file-unreadable-" + type(e).__name__, str(e)[:200]))
    try:
        got = w.get_associated_reader().read()
        bad = diff_frame(got, cols, exp, check_index=False)
        if bad:
            probs.append(("associated-reader-" + bad[0], "get_associated_reader().read(): " + bad[1]))
    except Exception as e:                                            # noqa: BLE001
        probs.append(("associated-reader-raises-" + type(e).__name__, str(e)[:200]))
    return probs


WRITER_KINDS = [("csv", None), ("parquet", None), ("csv", "DataFrame"), ("parquet", "DataFrame"),
                ("csv", "Dicts"), ("parquet", "Dicts"), ("csv", "Records"), ("parquet", "Records")]


def check_writers(tier, seed):
    ns = _sizes(tier)
    n_plans = 6 if tier == "quick" else 12
    ck = Check("writers_read_back",
               "mokapot.tabular_data.{CSVFileWriter,ParquetFileWriter,BufferedWriter,TabularDataWriter.from_suffix}: "
               "initialize / append_data / finalize / write / get_associated_reader",
               "one seeded table (seed %d) per row count 0..%d; column sets (all 5, 3 permuted, 2 without strings); "
               "writers text / Parquet unbuffered and buffered with every buffer size 2..n+1 and buffer kinds "
               "DataFrame, Dicts (dict and list[dict] appends), Records (one numpy.record per append, the only "
               "form the class accepts); per combination up to %d append sequences: all single rows, one append, "
               "empty appends first/middle/last, seeded random cuts incl. empty ranges (random.Random(1000*seed+n)); "
               "driven by explicit calls, by the context manager and (unbuffered) by write(); pre-existing file "
               "content in one sequence per combination" % (seed, ns[-1], n_plans),
               "oracle = the appended rows themselves: the finalised file read with pandas/pyarrow directly and "
               "through get_associated_reader() has exactly these columns and rows in order (ints/strings/bools "
               "exactly, floats 1e-12); non-trivial = at least 2 appends carrying rows and, for buffered writers, "
               "n >= buffer size (a flush before finalize)")
    _run_tasks(ck, _writer_task, [(n, seed, n_plans) for n in reversed(ns)])
    return ck


def _writer_task(task):
    n, seed, n_plans = task
    ck = _Events()
    rng = random.Random(seed * 1000 + n)
    colsets = [list(COLS), ["s", "i", "g"], ["b", "f"]]
    with scratch("c13w_") as d:
        df = make_table(n, seed + 17)
        for kind in WRITER_KINDS:
            fmt, buf = kind
            sizes = [0] if buf is None else list(range(2, n + 2))
            for bs in sizes:
                plans = append_plans(n, rng, n_plans)
                if buf == "Records":
                    plans = plans[:1]                  # only single-record appends exist for this kind
                for k, plan in enumerate(plans):
                    cols = colsets[(k + n + bs) % len(colsets)]
                    style = ("calls", "with")[(k + bs) % 2]
                    via_factory = (k + n) % 2 == 0
                    filled = sum(1 for a, b in plan if b > a)
                    nontriv = filled >= 2 and (buf is None or n >= bs)
                    ck.case((n, kind, bs, plan, cols, style, via_factory), nontrivial=nontriv)
                    stale = (k == 1)
                    for cls, text in run_writer_case(d, df, cols, kind, bs, plan, style, via_factory, stale):
                        ck.violation(_writer_case_id(kind, cls), "%s: %s" % (_wname(kind), text),
                                     {"n": n, "seed": seed, "writer": list(kind), "buffer_size": bs,
                                      "plan": plan, "columns": cols, "style": style,
                                      "via_factory": via_factory, "stale": stale})
            if buf is None:
                ck.case((n, kind, "write"), nontrivial=n >= 2)
                for via_factory in (False, True):
                    for cls, text in run_writer_case(d, df, list(COLS), kind, 0, [(0, n)], "write",
                                                     via_factory, stale=True):
                        ck.violation(_writer_case_id(kind, "write-" + cls), "%s.write(): %s"
                                     % (_wname(kind), text),
                                     {"n": n, "seed": seed, "writer": list(kind), "buffer_size": 0,
                                      "plan": [[0, n]], "columns": list(COLS), "style": "write",
                                      "via_factory": via_factory, "stale": True})
    return ck.events


def _wname(kind):
    return kind[0] + ("" if kind[1] is None else "+buffered-" + kind[1])


def _writer_case_id(kind, cls):
    return "%s-%s" % ("buffered-" + kind[1].lower() if kind[1] else kind[0] + "-writer", cls)


# ------------------------------------------------------------------------------------------------ handed-over objects
# The statement speaks about the rows that were appended: the values the handed-over object had WHEN append_data was
# called. A caller is free to go on using that object afterwards (the usual "collect a batch in one list, hand it
# over, clear it, refill it" idiom; one row dict that is updated for every row; a frame or record array that is
# overwritten): the finalised file must not depend on what happens to the object after the call returned.
JUNK = {"i": -777, "f": -0.125, "s": "JUNK_0", "b": False, "g": 99.5}
REUSE_MODES = {None: ["frame-overwritten"], "DataFrame": ["frame-overwritten"],
               "Dicts": ["list-refilled", "list-overwritten", "row-dict-reused"],
               "Records": ["record-array-overwritten"]}


def drive_reusing(append, sub, plan, mode):
    """Hands the rows of `sub` over range by range (plan) and keeps using the handed-over object afterwards."""
    cols = list(sub.columns)
    junk = {c: JUNK[c] for c in cols}
    if mode == "list-refilled":                       # ONE list object: filled, handed over, cleared, refilled ...
        rows = []
        for a, b in plan:
            rows.clear()
            rows.extend(sub.iloc[a:b].to_dict(orient="records"))
            append(rows)
        rows.clear()
    elif mode == "list-overwritten":                  # a fresh list per append, emptied / given other content after
        for k, (a, b) in enumerate(plan):
            rows = sub.iloc[a:b].to_dict(orient="records")
            append(rows)
            if k % 2 == 0:
                rows[:] = [dict(junk)]
            else:
                rows.clear()
    elif mode == "row-dict-reused":                   # ONE dict object, updated for every row and handed over
        row = {}
        for a, b in plan:
            for rec in sub.iloc[a:b].to_dict(orient="records"):
                row.clear()
                row.update(rec)
                append(row)
        row.update(junk)
    elif mode == "frame-overwritten":                 # the frame's values are overwritten in place after the append
        for a, b in plan:
            part = sub.iloc[a:b].copy()
            append(part)
            if len(part):
                for k, c in enumerate(cols):
                    part.iloc[:, k] = junk[c]
    elif mode == "record-array-overwritten":          # one numpy.record per append, its array slot overwritten after
        for a, b in plan:
            recs = sub.iloc[a:b].to_records(index=False)
            for j in range(len(recs)):
                append(recs[j])
                recs[j] = tuple(junk[c] for c in cols)
    else:
        raise ValueError(mode)


def run_reuse_case(d, df, cols, kind, buffer_size, plan, style, via_factory, mode):
    fmt, buf = kind
    path = Path(d) / ("reuse.parquet" if fmt == "parquet" else "reuse.csv")
    if path.exists():
        path.unlink()
    sub = df[cols]
    exp = rows_of(sub, cols)                          # the plan covers the rows 0..n in order
    try:
        w = make_writer(kind, path, cols, buffer_size, via_factory)
        if style == "with":
            with w:
                drive_reusing(w.append_data, sub, plan, mode)
        else:
            w.initialize()
            drive_reusing(w.append_data, sub, plan, mode)
            w.finalize()
    except Exception as e:                                            # noqa: BLE001
        return [("raises-" + type(e).__name__, "%s" % str(e)[:200])]
    try:
        bad = diff_frame(read_back(fmt, path), cols, exp, check_index=False)
        if bad:
            return [("file-" + bad[0], "file content: " + bad[1])]
    except Exception as e:                                            # noqa: BLE001
        return [("file-unreadable-" + type(e).__name__, str(e)[:200])]
    try:                                              # only reported when the file itself is right
        bad = diff_frame(w.get_associated_reader().read(), cols, exp, check_index=False)
        if bad:
            return [("associated-reader-" + bad[0], "get_associated_reader().read(): " + bad[1])]
    except Exception as e:                                            # noqa: BLE001
        return [("associated-reader-raises-" + type(e).__name__, str(e)[:200])]
    return []


def _reuse_sizes(buf, n, all_sizes):
    if buf is None:
        return [0]
    if buf == "Dicts":                                # sizes above n: nothing is flushed before finalize
        return list(range(2, n + 3)) if all_sizes else sorted({2, n // 2 + 1, n + 1, n + 2} - {0, 1})
    return sorted({2, n + 1})


def _reuse_task(task):
    n, seed, n_plans, fmt, all_sizes = task
    ck = _Events()
    rng = random.Random(seed * 1000 + 7 * n + (fmt == "parquet"))
    colsets = [list(COLS), ["s", "i", "g"], ["b", "f"]]
    df = make_table(n, seed + 17)
    with scratch("c13u_") as d:
        for kind in [k for k in WRITER_KINDS if k[0] == fmt]:
            buf = kind[1]
            for bs in _reuse_sizes(buf, n, all_sizes):
                plans = append_plans(n, rng, n_plans)
                if buf != "Dicts":
                    plans = plans[:1] if buf == "Records" else plans[:3]
                for k, plan in enumerate(plans):
                    for m, mode in enumerate(REUSE_MODES[buf]):
                        if mode == "row-dict-reused" and k > 0:
                            continue                   # handed over row by row: the cuts of the sequence do not matter
                        cols = colsets[(k + n + bs + m) % len(colsets)]
                        style = ("calls", "with")[(k + bs + m) % 2]
                        via_factory = (k + n + m) % 2 == 0
                        ck.case((n, kind, bs, plan, cols, style, via_factory, mode), nontrivial=n >= 2)
                        for cls, text in run_reuse_case(d, df, cols, kind, bs, plan, style, via_factory, mode):
                            ck.violation("%s-handed-over-%s-%s" % (_writer_case_id(kind, "")[:-1], mode, cls),
                                         "%s, %s: %s" % (_wname(kind), mode, text),
                                         {"n": n, "seed": seed, "writer": list(kind), "buffer_size": bs,
                                          "plan": plan, "columns": cols, "style": style,
                                          "via_factory": via_factory, "mode": mode})
    return ck.events


def check_writers_reused_objects(tier, seed):
    ns = [n for n in _sizes(tier) if n >= 1]
    n_plans = 4 if tier == "quick" else 8
    all_sizes = tier != "quick"
    ck = Check("writers_handed_over_object_reused",
               "mokapot.tabular_data.{CSVFileWriter,ParquetFileWriter,BufferedWriter,TabularDataWriter.from_suffix}: "
               "initialize / append_data / finalize / get_associated_reader",
               "one seeded table (seed %d) per row count 1..%d, column sets as in writers_read_back, text and "
               "Parquet; the caller keeps using the object it handed to append_data: Dicts buffer (buffer sizes %s, "
               "%d append sequences each: single rows, one append, empty appends first/middle/last, seeded cuts) "
               "with (a) ONE list that is cleared and refilled for every append and cleared before finalize, (b) a "
               "fresh list per append that is afterwards emptied or given one other row, (c) ONE row dict that is "
               "updated and handed over row by row and changed once more before finalize (one sequence per buffer "
               "size); unbuffered and DataFrame "
               "buffer (sizes 2, n+1; 3 sequences): the frame's values overwritten in place after the append; "
               "Records buffer (sizes 2, n+1; single records): the record's array slot overwritten after the append; "
               "explicit calls and context manager alternate"
               % (seed, ns[-1], "2..n+2" if all_sizes else "{2, n//2+1, n+1, n+2}", n_plans),
               "oracle = the rows of the table in the order they were handed over (the value of the object at the "
               "time of the call): the finalised file read with pandas/pyarrow directly (and, if that is right, "
               "get_associated_reader().read()) holds exactly these columns and rows (ints/strings/bools exactly, "
               "floats 1e-12); non-trivial = at least 2 rows")
    _run_tasks(ck, _reuse_task, [(n, seed, n_plans, fmt, all_sizes) for n in reversed(ns) for fmt in ("parquet", "csv")])
    return ck


# ------------------------------------------------------------------------------------------------ column layouts
# Appends whose frame does not have the writer's column list: the statement wants every value under ITS OWN column
# or a refusal. The oracle works by column NAME only (never by position): a frame with exactly the writer's columns
# in another order has well-defined rows {name: value}; a frame with an extra, a missing or a differently named
# column cannot be stored faithfully in a file with the writer's columns and has to be refused.
SQL_COLS = ["peptide", "q_value", "posterior_error_prob", "score"]
# ConfidenceSqliteWriter(level="peptides") documents: INSERT INTO PEPTIDE_VALIDATION(PEPTIDE_ID,FDR,PEP,SVM_SCORE)
# fed from the frame columns peptide, q_value, posterior_error_prob, score (the table has to exist beforehand)
SQL_TABLE, SQL_FIELDS = "PEPTIDE_VALIDATION", ["PEPTIDE_ID", "FDR", "PEP", "SVM_SCORE"]
EXTRA_COL = "x_extra"
# Only frames with the writer's columns in another ORDER are judged: C13 speaks about rows that are appended and
# read back unchanged, which a frame with the right columns in another order can satisfy (or be refused).  Frames
# with an extra, a missing or a renamed column cannot be stored faithfully at all and the statement says nothing
# about them (on the current tree ParquetFileWriter drops an extra column and BufferedWriter pads a missing one
# with nulls instead of refusing - observations, not violations of C13): demanding a refusal there would demand
# more than the property states.  The machinery for those classes is kept but switched off.
DEVIATIONS = ["permuted-columns"]
ALL_DEVIATION_CLASSES = ["permuted-columns", "extra-column", "missing-column", "wrong-name-column"]
MUST_REFUSE = ("extra-column", "missing-column", "wrong-name-column")
LAYOUT_KINDS = [("csv", None), ("parquet", None), ("sqlite", None),
                ("csv", "DataFrame"), ("parquet", "DataFrame"), ("sqlite", "DataFrame"),
                ("csv", "Dicts"), ("parquet", "Dicts"), ("csv", "Records"), ("parquet", "Records")]


def layout_table(n, seed, fmt):
    df = make_table(n, seed + 17)
    if fmt != "sqlite":
        return df
    return pd.DataFrame({"peptide": df["i"], "q_value": df["f"], "posterior_error_prob": df["g"],
                         "score": make_table(n, seed + 31)["f"]})


def layout_class(layout, cols):
    """Class of a frame layout relative to the writer's column list, by names only."""
    layout, cols = list(layout), list(cols)
    if layout == cols:
        return "conforming"
    if sorted(layout) == sorted(cols):
        return "permuted-columns"
    extra = [c for c in layout if c not in cols]
    missing = [c for c in cols if c not in layout]
    if extra and not missing:
        return "extra-column"
    if missing and not extra:
        return "missing-column"
    return "wrong-name-column"


def frame_with_layout(part, layout):
    """The rows of `part` as a frame with the columns `layout`: a known name carries its own values, NAME_X the
    values of NAME (a differently named column), anything else fresh integers."""
    data = {}
    for name in layout:
        if name in part.columns:
            data[name] = part[name]
        elif name.endswith("_X") and name[:-2] in part.columns:
            data[name] = part[name[:-2]]
        else:
            data[name] = pd.Series([900 + r for r in range(len(part))], index=part.index, dtype="int64")
    return pd.DataFrame(data, columns=list(layout), index=part.index)


def layout_variants(cols, rng):
    """deviation class -> list of layouts (lists of column names)"""
    cols = list(cols)
    perms = [list(reversed(cols)), cols[1:] + cols[:1], cols[-1:] + cols[:-1]]
    for _ in range(4):
        p = list(cols)
        rng.shuffle(p)
        perms.append(p)
    if len(cols) >= 3:
        perms.append([cols[1], cols[0]] + cols[2:])              # only two neighbours swapped
    uniq = []
    for p in perms:
        if p != cols and p not in uniq:
            uniq.append(p)
    mid = len(cols) // 2
    return {"permuted-columns": uniq,
            "extra-column": [cols + [EXTRA_COL], [EXTRA_COL] + cols, cols[:mid] + [EXTRA_COL] + cols[mid:],
                             list(reversed(cols)) + [EXTRA_COL]],
            "missing-column": [cols[1:], cols[:-1], cols[:mid] + cols[mid + 1:], list(reversed(cols))[1:]],
            "wrong-name-column": [[cols[0] + "_X"] + cols[1:], cols[:-1] + [cols[-1] + "_X"],
                                  cols[:mid] + [cols[mid] + "_X"] + cols[mid + 1:]]}


def make_layout_writer(kind, path, cols, buffer_size, via_factory):
    fmt, buf = kind
    if fmt != "sqlite":
        return make_writer(kind, path, cols, buffer_size, via_factory)
    from mokapot.tabular_data import BufferedWriter, TableType
    from mokapot.confidence_writer import ConfidenceSqliteWriter
    con = sqlite3.connect(path)
    con.execute("CREATE TABLE %s (PEPTIDE_ID INTEGER, FDR REAL, PEP REAL, SVM_SCORE REAL)" % SQL_TABLE)
    con.commit()
    con.close()
    inner = ConfidenceSqliteWriter(path, list(cols), level="peptides")
    return inner if buf is None else BufferedWriter(inner, buffer_size, TableType[buf])


def read_back_layout(fmt, path):
    if fmt != "sqlite":
        return read_back(fmt, path)
    con = sqlite3.connect(path)
    try:
        rows = con.execute("SELECT %s FROM %s ORDER BY rowid" % (", ".join(SQL_FIELDS), SQL_TABLE)).fetchall()
    finally:
        con.close()
    return pd.DataFrame({c: pd.Series([r[k] for r in rows], dtype=(None if rows else "object"))
                         for k, c in enumerate(SQL_COLS)})


def diff_by_name(got, cols, exp_rows, prefix):
    """Like diff_frame, but the stored columns are identified by their NAME (their order in the file is the matter
    of the plain round-trip check); prefix=True: the stored rows only have to be a leading part of exp_rows."""
    if not isinstance(got, pd.DataFrame):
        return "not-a-frame", "result is %s" % type(got).__name__
    names = [str(c) for c in got.columns]
    if sorted(names) != sorted(cols):
        return "columns-differ", "stored columns %s, writer columns %s" % (names, list(cols))
    got = got.set_axis(names, axis=1)[list(cols)]
    if prefix:
        if len(got) > len(exp_rows):
            return "row-count-differs", "%d rows stored, only %d rows could be stored faithfully" % (
                len(got), len(exp_rows))
        exp_rows = exp_rows[:len(got)]
    return diff_frame(got, list(cols), exp_rows, check_index=False)


def _pieces(frame, buf, k):
    if buf in (None, "DataFrame"):
        return [frame]
    if buf == "Dicts":                                   # key order of the dicts = column order of the frame
        recs = frame.to_dict(orient="records")
        return [recs[0]] if (len(recs) == 1 and k % 2 == 0) else [recs]
    return list(frame.to_records(index=False))           # Records: one numpy.record per append


def run_layout_case(d, df, cols, kind, buffer_size, plan, layouts, style, via_factory):
    """One history of appends; layouts: {index of the append in plan: column layout of that frame} (every other
    frame has the writer's column list). The history ends at the first exception (a refusal); then the writer is
    finalised and the file inspected.
    -> (deviation class of the history, list of (problem class, text))"""
    fmt, buf = kind
    cols = list(cols)
    path = Path(d) / {"parquet": "lay.parquet", "sqlite": "lay.db"}.get(fmt, "lay.csv")
    if path.exists():
        path.unlink()
    layouts = {int(k): list(v) for k, v in layouts.items()}
    sub = df[cols]
    by_name = rows_of(sub, cols)                 # row r of the table as the tuple of its values in writer-column order

    def frame(k):
        a, b = plan[k]
        return sub.iloc[a:b] if k not in layouts else frame_with_layout(df.iloc[a:b], layouts[k])

    def rows(k):                                 # rows of append k by column NAME (permuted / conforming frames)
        a, b = plan[k]
        return by_name[a:b]
    # an empty frame holds nothing that could be stored wrongly, whatever its columns are
    classes = ["conforming" if b <= a else layout_class(layouts.get(k, cols), cols) for k, (a, b) in enumerate(plan)]
    deviant = [c for c in classes if c != "conforming"]
    history_class = deviant[0] if deviant else "conforming"
    unstorable = [k for k, c in enumerate(classes) if c in MUST_REFUSE]
    limit = unstorable[0] if unstorable else len(plan)          # frames before `limit` have well-defined rows
    probs = []
    refused = None                                              # (index of the append | "finalize", exception)
    accepted = 0                                                # appends that returned normally
    try:
        w = make_layout_writer(kind, path, cols, buffer_size, via_factory)
        if style == "write":
            try:
                w.write(frame(0))
                accepted = 1
            except Exception as e:                                    # noqa: BLE001
                refused = (0, type(e).__name__)
        else:
            w.initialize()
            for k in range(len(plan)):
                try:
                    for piece in _pieces(frame(k), buf, k + len(plan)):
                        w.append_data(piece)
                    accepted = k + 1
                except Exception as e:                                # noqa: BLE001
                    refused = (k, type(e).__name__)
                    break
            try:
                w.finalize()
            except Exception as e:                                    # noqa: BLE001
                refused = refused or ("finalize", type(e).__name__)
                inner = getattr(w, "writer", None)
                if inner is not None and hasattr(inner, "finalize"):
                    try:                                              # what a caller's clean-up does: close the file
                        inner.finalize()
                    except Exception:                                 # noqa: BLE001
                        pass
    except Exception as e:                                            # noqa: BLE001
        return history_class, [("setup-raises-" + type(e).__name__, str(e)[:200])]
    if unstorable and refused is None:
        probs.append(("not-refused", "append %d has the columns %s (writer: %s): no exception from append_data or "
                      "finalize" % (unstorable[0], layouts.get(unstorable[0]), cols)))
    storable = [r for k in range(limit) for r in rows(k)]
    try:
        if style == "write" and refused is not None and not path.exists():
            got = None                                                # refused before anything was created
        else:
            got = read_back_layout(fmt, path)
    except Exception as e:                                            # noqa: BLE001
        probs.append(("file-unreadable-" + type(e).__name__, str(e)[:200]))
        return history_class, probs
    if got is None:
        return history_class, probs
    if refused is None and not unstorable:
        bad = diff_by_name(got, cols, storable, prefix=False)
        if bad:
            probs.append(("file-" + bad[0], "no append was refused; file content by column name: " + bad[1]))
    elif refused is not None:
        if buf is None:
            # an unbuffered writer holds nothing back: exactly the rows of the accepted appends are stored
            exp = [r for k in range(min(limit, accepted)) for r in rows(k)]
            over = accepted > limit
        else:
            exp = storable
            over = isinstance(got, pd.DataFrame) and len(got) > len(storable)
        if unstorable and over:
            # the exception came too late: rows of the frame that cannot be stored faithfully are in the file
            probs.append(("not-refused", "append %d has the columns %s (writer: %s): %d rows in the file, only %d "
                          "precede it (the history raised %s at %s)" % (unstorable[0], layouts.get(unstorable[0]),
                                                                        cols, len(got), len(storable), refused[1],
                                                                        refused[0])))
        else:
            bad = diff_by_name(got, cols, exp, prefix=buf is not None)
            if bad:
                probs.append(("after-refusal-file-" + bad[0], "refused at %s with %s; file content by column "
                              "name: %s" % (refused[0], refused[1], bad[1])))
    return history_class, probs


def _layout_writer_name(kind):
    return "%s-%s" % (kind[0], "buffered" if kind[1] else "writer")


def _layout_histories(plan, variants, k0, deviations):
    """-> list of (position label, {append index: layout}); the deviant appends always carry rows."""
    filled = [k for k, (a, b) in enumerate(plan) if b > a]
    out = [("none", {})]
    if not filled:
        return out
    spots = [("first", filled[:1])]
    if len(filled) >= 2:
        spots.append(("later", [filled[(k0 % (len(filled) - 1)) + 1]]))
        spots.append(("all", filled))
    for dk, dev in enumerate(deviations):
        for sk, (label, where) in enumerate(spots):
            v = variants[dev]
            out.append((label, {k: v[(k0 + dk + sk + j) % len(v)] for j, k in enumerate(where)}))
    return out


def _layout_task(task):
    n, seed, n_plans, kind_index, all_sizes = task
    kind = LAYOUT_KINDS[kind_index]
    fmt, buf = kind
    ev = {dev: _Events() for dev in DEVIATIONS}
    rng = random.Random(seed * 1000 + 50 * n + kind_index)
    colsets = [list(SQL_COLS)] if fmt == "sqlite" else [list(COLS), ["s", "i", "g"], ["b", "f"]]
    df = layout_table(n, seed, fmt)
    if buf is None:
        sizes = [0]
    else:
        sizes = list(range(2, n + 2)) if all_sizes else sorted({2, n // 2 + 1, n + 1} - {0, 1})
    with scratch("c13l_") as d:
        for bs in sizes:
            plans = append_plans(n, rng, n_plans)
            if buf == "Records":
                plans = plans[:1]
            for k, plan in enumerate(plans):
                cols = colsets[(k + n + bs) % len(colsets)]
                variants = layout_variants(cols, rng)
                via_factory = (k + n) % 2 == 0 and fmt != "sqlite"
                devs = [dev for dev in DEVIATIONS if not (fmt == "sqlite" and dev == "extra-column")]
                hist = [(label, lay, "calls")
                        for label, lay in _layout_histories(plan, variants, k + n + bs, devs)]
                if buf is None and plan[0][1] > plan[0][0]:
                    # the one-shot write() of a frame with permuted columns
                    v = variants["permuted-columns"]
                    hist.append(("write", {0: v[(k + n) % len(v)]}, "write"))
                for label, lay, style in hist:
                    this_plan = plan[:1] if style == "write" else plan
                    dev, probs = run_layout_case(d, df, cols, kind, bs, this_plan, lay, style, via_factory)
                    sink = ev["permuted-columns" if dev == "conforming" else dev]
                    sink.case((n, kind, bs, this_plan, cols, sorted(lay.items()), style, via_factory),
                              nontrivial=bool(lay) and n >= 2)
                    for cls, text in probs:
                        sink.violation("%s-%s-frame-%s%s" % (_layout_writer_name(kind), dev,
                                                            "write-" if style == "write" else "", cls),
                                       "%s, deviant append(s): %s: %s" % (_wname(kind), label, text),
                                       {"n": n, "seed": seed, "writer": list(kind), "buffer_size": bs,
                                        "plan": this_plan, "columns": cols,
                                        "layouts": {str(a): b for a, b in lay.items()}, "style": style,
                                        "via_factory": via_factory})
    return {dev: e.events for dev, e in ev.items()}


_LAYOUT_TEXT = {
    "permuted-columns": ("exactly the writer's columns in another order (reversed, rotated, two neighbours swapped, "
                         "seeded shuffles); plus, as a control, the same history with conforming frames only and "
                         "(unbuffered) the one-shot write() of a permuted frame",
                         "the frame's rows are well defined by column name: either an exception (a refusal) or the "
                         "file holds every value under its own column name"),
    "extra-column": ("the writer's columns plus one more column (last, first, in the middle, after reversed columns; "
                     "not applied to the SQLite writers, which are handed whole chunks by design)",
                     "the file cannot hold the extra values: the history has to raise"),
    "missing-column": ("the writer's columns without one (first, last, middle, reversed order)",
                       "the rows have no value for one file column: the history has to raise"),
    "wrong-name-column": ("the writer's columns with one of them under another name (first, last, middle)",
                          "one column of the frame is not a column of the file: the history has to raise"),
}


def check_writer_layouts(tier, seed):
    """-> four Checks (one per class of deviating frame), evaluated by the same tasks."""
    ns = [n for n in _sizes(tier) if n >= 1]
    n_plans = 4 if tier == "quick" else 8
    all_sizes = tier != "quick"
    tasks = [(n, seed, n_plans, ki, all_sizes) for n in reversed(ns) for ki in reversed(range(len(LAYOUT_KINDS)))]
    results = list(reversed(_pool_map(_layout_task, tasks)))
    checks = []
    for dev in DEVIATIONS:
        frames, demand = _LAYOUT_TEXT[dev]
        ck = Check("writers_" + dev.replace("-", "_") + "_frames",
                   "mokapot.tabular_data.{CSVFileWriter,ParquetFileWriter,BufferedWriter,TabularDataWriter."
                   "from_suffix,TabularDataWriter.check_valid_data}, mokapot.confidence_writer."
                   "ConfidenceSqliteWriter(level='peptides'): initialize / append_data / finalize",
                   "one seeded table (seed %d) per row count 1..%d; writers text / Parquet / SQLite unbuffered and "
                   "behind a DataFrame buffer, text / Parquet behind Dicts and Records buffers, buffer sizes %s; "
                   "column sets as in writers_read_back (SQLite: the 4 columns of the peptide table, created by the "
                   "harness); %d append sequences per combination (single rows, one append, empty appends, seeded "
                   "cuts; Records: single rows only); in each sequence the FIRST row-carrying append, one LATER "
                   "row-carrying append, or ALL of them get a frame (dict keys / record fields for the other buffer "
                   "kinds) with: %s; the sequence stops at the first exception, then finalize and, if that raises, "
                   "the wrapped writer's finalize are called"
                   % (seed, ns[-1], "2..n+1" if all_sizes else "{2, n//2+1, n+1}", n_plans, frames),
                   "oracle by column NAME, from the appended frames only: %s; after a refusal the file (read with "
                   "pandas / pyarrow / sqlite3 directly) must hold a leading part of the storable rows (unbuffered: "
                   "exactly the rows of the accepted appends), never a value under a foreign column; non-trivial = "
                   "at least 2 rows and at least one deviating row-carrying append" % demand)
        _replay_events(ck, [r[dev] for r in results])
        checks.append(ck)
    return checks


# ------------------------------------------------------------------------------------------------ replay
def REPLAY(check_name, violation):
    inp = violation["input"]
    if isinstance(inp, str):
        inp = json.loads(inp)
    if check_name == "readers_chunked_equals_whole":
        n, seed = inp["n"], inp["seed"]
        df = make_table(n, seed)
        with scratch("c13p_") as d:
            readers = build_readers(df, d)
            name = inp["reader"]
            reader, allcols, colvals = readers[name] if name in readers else _const_reader(name, readers)
            probs = run_reader_case(reader, allcols, colvals, n, inp["columns"], inp["chunk_size"])
        return {"violated": bool(probs), "detail": probs}
    if check_name == "frame_readers_indexed_tables":
        n, seed = inp["n"], inp["seed"]
        df, base, labels = make_indexed_frame(n, seed, inp["index_kind"])
        reader, allcols, colvals = build_frame_readers(df, base)[inp["reader"]]
        probs = run_reader_case(reader, allcols, colvals, n, inp["columns"], inp["chunk_size"], labels=labels)
        return {"violated": bool(probs), "detail": probs}
    if check_name == "writers_read_back":
        n, seed = inp["n"], inp["seed"]
        df = make_table(n, seed + 17)
        with scratch("c13p_") as d:
            probs = run_writer_case(d, df, inp["columns"], tuple(inp["writer"]), inp["buffer_size"],
                                    [tuple(p) for p in inp["plan"]], inp["style"], inp["via_factory"],
                                    inp.get("stale", False))
        return {"violated": bool(probs), "detail": probs}
    if check_name == "writers_handed_over_object_reused":
        n, seed = inp["n"], inp["seed"]
        df = make_table(n, seed + 17)
        with scratch("c13p_") as d:
            probs = run_reuse_case(d, df, inp["columns"], tuple(inp["writer"]), inp["buffer_size"],
                                   [tuple(p) for p in inp["plan"]], inp["style"], inp["via_factory"], inp["mode"])
        return {"violated": bool(probs), "detail": probs}
    if check_name in ["writers_" + dev.replace("-", "_") + "_frames" for dev in DEVIATIONS]:
        n, seed, kind = inp["n"], inp["seed"], tuple(inp["writer"])
        df = layout_table(n, seed, kind[0])
        with scratch("c13p_") as d:
            dev, probs = run_layout_case(d, df, inp["columns"], kind, inp["buffer_size"],
                                         [tuple(p) for p in inp["plan"]], inp["layouts"], inp["style"],
                                         inp["via_factory"])
        return {"violated": bool(probs), "detail": probs, "deviation": dev}
    return {"violated": None, "note": "no replay for %s" % check_name}


def _timed(checks):
    """Check.wall_s counts from the creation of the Check to emit(): shift t0 so that it reports the check's own time."""
    import time
    done = []
    for fn, tier, seed in checks:
        t = time.time()
        cks = fn(tier, seed)
        cks = cks if isinstance(cks, list) else [cks]
        for ck in cks:                              # checks evaluated together report their common time
            done.append((ck, time.time() - t))
    for ck, elapsed in done:
        ck.t0 = time.time() - elapsed
    return [ck for ck, _ in done]


if __name__ == "__main__":
    a = args()
    np.random.seed(a.seed)
    emit(_timed([(check_readers, a.tier, a.seed), (check_frame_readers_indexed, a.tier, a.seed),
                 (check_writers, a.tier, a.seed),
                 (check_writers_reused_objects, a.tier, a.seed), (check_writer_layouts, a.tier, a.seed)]),
         ["tables have no missing values and no text a CSV parser re-interprets: value round-tripping through CSV "
          "text / Parquet is a pandas / pyarrow matter; tables have a default RangeIndex except in "
          "frame_readers_indexed_tables",
          "frame_readers_indexed_tables: for an in-memory frame whose index is not 0..n-1 (gapped, permuted, "
          "reversed, offset, text labels; unique labels) 'reading the table in one piece' is read as the rows in "
          "frame order WITH the frame's own index labels, and the chunks must continue that index; only readers "
          "whose parts all carry that index are judged (frame, renamed, frame joined with frame, computed column): a "
          "frame with such an index joined with a file reader (labels 0..n-1) is not covered, the statement gives "
          "no unambiguous expectation there; duplicate index labels are not covered",
          "the appended rows are the values the handed-over object (list of dicts, dict, frame, numpy.record) has when "
          "append_data is called: what the caller does with that object after the call returned (clearing / "
          "refilling the list, updating the dict, overwriting the frame or record array) must not reach the file "
          "(writers_handed_over_object_reused)",
          "BufferedWriter with buffer kind Records is driven with one numpy.record per append (its type "
          "annotation rejects record arrays)",
          "the function of a ComputedTabularDataReader only sees the requested columns of the wrapped reader; the "
          "derived-column cases therefore always request the column it is derived from",
          "SqliteWriter is abstract (no append_data); its concrete subclass ConfidenceSqliteWriter is covered by the "
          "column-layout checks only, with level='peptides' (INSERT into a table the harness creates); level='psms' "
          "(UPDATE of existing rows) is not an append and is not covered",
          "column-layout checks: any exception out of append_data / finalize counts as a refusal, also one that "
          "comes later than the deviating append (buffered writers); rows of earlier appends that a refusing "
          "buffered writer never flushed are not demanded; frames with an extra column are not given to the SQLite "
          "writer (mokapot.confidence_writer.write_confidences hands it whole chunks by design) and write() is only "
          "exercised with permuted columns"])
