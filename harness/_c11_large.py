"""Private helpers of harness/c11.py for LARGE folds / collections (thousands to tens of thousands of decoys).

Nothing here calls mokapot.  `q_doubles` is the same quantity as harness/_c01_oracle.oracle_q_fast followed by float():
q_i = min over the thresholds at or worse than score_i of (D + 1) / T, capped at 1, D / T = decoys / targets at or better
than the threshold.  oracle_q_fast evaluates every threshold with a full pass (quadratic, fine for a few hundred rows);
here the integer counts come from one sort.  D + 1 and T are integers far below 2**53, so the IEEE quotient
(D + 1) / T IS the exact rational rounded to the nearest double, and rounding is monotone, so the minimum of the
rounded quotients is the rounded minimum: the doubles are identical to float(oracle_q_fast(...)[i]).
"""
import numpy as np
import pandas as pd

LARGE = 2000        # from this many rows on harness/c11.py:anchors() takes the one-sort route


def q_doubles(scores, targets):
    """nearest doubles of the exact q-values (higher score = better), ties share a threshold"""
    s = np.asarray(scores, dtype=float)
    tg = np.asarray(targets, dtype=bool)
    order = np.argsort(-s, kind="stable")
    ss, tt = s[order], tg[order]
    n = len(ss)
    cum_t = np.cumsum(tt).astype(np.int64)
    cum_d = np.cumsum(~tt).astype(np.int64)
    last = np.flatnonzero(np.r_[ss[1:] != ss[:-1], True])          # last row of every group of equal scores
    group = np.searchsorted(last, np.arange(n), side="left")        # group number of every sorted row
    T = cum_t[last].astype(float)
    D1 = (cum_d[last] + 1).astype(float)
    F = np.full(len(last), np.inf)
    np.divide(D1, T, out=F, where=T > 0)
    suf = np.minimum(np.minimum.accumulate(F[::-1])[::-1], 1.0)     # thresholds at or worse than the group's
    q = np.empty(n)
    q[order] = suf[group]
    return q


def median(xs):
    """the median as the statement means it: middle element, or the mean of the two middle elements"""
    xs = np.sort(np.asarray(xs, dtype=float))
    m = len(xs)
    return float(xs[m // 2]) if m % 2 else (float(xs[m // 2 - 1]) + float(xs[m // 2])) / 2.0


# ----------------------------------------------------------------------------------------------------------
# decoy counts: round numbers, powers of two and their neighbours, and seeded-random even / odd counts
# ----------------------------------------------------------------------------------------------------------
ROUND = (1000, 2000, 2500, 3000, 4000, 4096, 4998, 4999, 5000, 5001, 5002, 5003, 6000, 7500, 8000, 8192, 9999,
         10000, 10001, 12000, 12500, 15000, 16384, 20000, 25000, 30000, 32768)


def decoy_counts(tier, rng):
    counts = []
    for v in ROUND:
        counts.append(v)
    for p in range(10, 16):                                         # 1024 .. 32768: one below, one above
        counts += [2 ** p - 1, 2 ** p + 1]
    n_rand = 16 if tier == "quick" else 400
    for j in range(n_rand):                                         # even and odd in turn
        c = int(rng.integers(1000, 40001 if j % 4 else 12001))
        counts.append(c - (c % 2) + (j % 2))
    if tier != "quick":
        counts += [50000, 65535, 65536, 65537, 99999, 100000, 100001, 131072]
    else:
        counts += [65536]
    return counts


def direct_case(p):
    """The score / label vectors of one direct call, from its parameters alone (this is what a replay re-creates).
    p: nd, nt (decoys, targets), gen (generator seed), mode (continuous / ties / negative / small-scale), fdr."""
    rng = np.random.default_rng([p["gen"], p["nd"], p["nt"]])
    nd, nt = p["nd"], p["nt"]
    scale = 0.01 if p["mode"] == "small-scale" else 1.0
    dec = rng.normal(0, 1, nd)
    good = rng.random(nt) < p.get("good", 0.45)
    tar = rng.normal(0, 1, nt) + 3.0 * good
    scores = np.concatenate([tar, dec]) * scale
    lab = np.r_[np.ones(nt, dtype=bool), np.zeros(nd, dtype=bool)]
    if p["mode"] == "ties":
        scores = np.round(scores, 2)                                # many equal scores, also around the median
    elif p["mode"] == "negative":
        scores = scores - 50.0
    perm = rng.permutation(nd + nt)
    return scores[perm].astype(float), lab[perm]


def big_df(n_spec, seed, n_feat=2, n_pep=4000, n_prot=50):
    """A PIN-like table like harness.datasets.small_df (two PSMs per spectrum, f0 separates, other features noise),
    built without a Python loop, with RANDOM labels (each PSM is a decoy with probability 1/2) so that the number of
    decoys of a fold is not tied to its number of spectra."""
    rng = np.random.default_rng([seed, n_spec])
    n = 2 * n_spec
    s = np.arange(n) // 2
    tgt = rng.random(n) < 0.5
    good = tgt & (s % 3 > 0)
    cols = {"SpecId": np.arange(n), "Label": np.where(tgt, 1, -1), "ScanNr": s, "ExpMass": 100.0 + s,
            "f0": rng.normal(0, 1, n) + 2.5 * good}
    for k in range(1, n_feat):
        cols["f%d" % k] = rng.normal(0, 1, n)
    cols["Peptide"] = ["PEP%dK" % v for v in ((s * 7 + np.arange(n) % 2) % n_pep).tolist()]
    cols["Proteins"] = ["prot%d" % v for v in (s % n_prot).tolist()]
    return pd.DataFrame(cols)
