"""Prints the markdown table 'which check catches which seeded change' from seeded/*/result.json + meta.json."""
import glob
import json
import os
import re
import sys

HERE = os.path.dirname(os.path.dirname(os.path.abspath(__file__)))
sys.path.insert(0, HERE)
from pyvc.check import load_modules  # noqa: E402

mods = load_modules()
targets = {}
for m in mods.values():
    for c in getattr(m, "CONTRACTS", []):
        targets[c.target.split(".")[-1].replace("#", "_")] = c.target.split(".")[-1]
bounded = set()
for f in glob.glob(os.path.join(HERE, "harness", "c*.py")):
    bounded |= set(re.findall(r'Check\(\s*"([A-Za-z0-9_]+)"', open(f).read()))

print("| seed | change | deductive | bounded |")
print("|------|--------|-----------|---------|")
for d in sorted(glob.glob(os.path.join(HERE, "seeded", "*"))):
    n = os.path.basename(d)
    r = json.load(open(d + "/result.json"))
    meta = json.load(open(d + "/meta.json"))
    D, S, B = [], [], []
    for p, c in r["checks"].items():
        for l in c["lines"]:
            m = re.search(r"replay=replays/%s-(.*)-[0-9a-f]{8}\.json(.*)" % p, l)
            if l.startswith("VIOLATION") and m:
                name = m.group(1)
                if name.startswith("frame-"):
                    D.append("frame obligation of `%s`" % name[6:])
                elif name in targets and name not in bounded:
                    D.append("`%s` %s" % (targets[name], "(counter-model replayed)" if "no-failing" not in m.group(2)
                                          else "(no input)"))
                else:
                    B.append("`%s`" % name)
            elif l.startswith("UNDECIDED"):
                t = l.split("obligation=")[1].split(" ")[0]
                D.append("`%s` undecided" % t.split(":")[0].split(".")[-1])
            elif l.startswith("STALE"):
                S.append("`%s` stale" % l.split("contract=")[1].split(" ")[0].split(".")[-1])
    uniq = lambda xs: ", ".join(sorted(set(xs)))
    ded = uniq(D + S) or "-"
    summ = meta.get("summary", "").replace("|", "/")
    summ = summ if len(summ) <= 150 else summ[:147] + "..."
    print("| %s | %s | %s | %s |" % (n, summ, ded, uniq(B) or "-"))
