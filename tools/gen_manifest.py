"""Regenerates MANIFEST.json from tools/manifest_table.py (keeps it schema-valid at all times)."""
import json
import os
import sys

HERE = os.path.dirname(os.path.dirname(os.path.abspath(__file__)))
sys.path.insert(0, HERE)
from tools.manifest_table import CHECKS, NOT_APPLICABLE, NOTES  # noqa

checks = []
for pid, d in sorted(CHECKS.items()):
    checks.append({
        "property_id": pid,
        "quick_cmd": "python3-vt -m pyvc.check %s --tier quick" % pid,
        "thorough_cmd": "python3-vt -m pyvc.check %s --tier thorough" % pid,
        "evidence_file": "/verif/evidence/%s.json" % pid,
        "replay_cmd_template": "python3-vt -m pyvc.check %s --replay {path}" % pid,
        "engine": "pyvc",
        "level_claimed": {"category": d["category"], "text": d["text"], "design_ref": d["design_ref"]},
        "level_note": d["note"],
        "technique": d["technique"],
    })
m = {
    "version": 1,
    "setup_cmd": "python3-vt -m compileall -q pyvc contracts harness tools >/dev/null && python3-vt -m pyvc.selftest",
    "hooks": {
        "guard": "MOKAPOT_VERIF",
        "enable": "no source hooks: contracts are sidecar files under /verif/contracts keyed by qualified name; "
                  "MOKAPOT_VERIF=1 is set only inside the bounded harness processes",
        "baseline_off_cmd": "cd /repo && /venv/bin/python -m pytest -ra -q -p no:cacheprovider --timeout=900 "
                            "--continue-on-collection-errors",
        "source_commits": [],
        "add_only": True,
    },
    "engines": [{
        "name": "pyvc",
        "path": "/verif/pyvc",
        "serves_properties": sorted(CHECKS),
        "kind_free_text": "contract-based deductive verifier for a Python subset built here: ast of the current "
                          "/repo source + sidecar contracts -> verification conditions (one per path and clause) -> "
                          "z3 5.1 / cvc5 1.0.3 in killable processes; same contract text evaluated at run time on the "
                          "real functions as bounded stand-in and for counterexample replay",
    }],
    "checks": checks,
    "notes": NOTES,
    "not_applicable": [{"property_id": k, "reason": v} for k, v in sorted(NOT_APPLICABLE.items())],
}
json.dump(m, open(os.path.join(HERE, "MANIFEST.json"), "w"), indent=1)
print("MANIFEST.json: %d checks, %d not applicable" % (len(checks), len(NOT_APPLICABLE)))
