#!/bin/sh
# every registered check of MANIFEST.json, sequentially; usage: tools/run_all.sh quick|thorough
cd "$(dirname "$0")/.."
tier=${1:-quick}
for p in $(python3 -c "import json;print(' '.join(c['property_id'] for c in json.load(open('MANIFEST.json'))['checks']))"); do
  s=$(date +%s)
  out=$(python3-vt -m pyvc.check $p --tier $tier 2>&1); rc=$?
  e=$(date +%s)
  echo "$p rc=$rc $((e-s))s $(echo "$out" | grep -c '^VIOLATION') violations $(echo "$out" | grep -c '^KNOWN-FINDING') known $(echo "$out" | grep '^STALE\|^UNDECIDED\|^CHECKER' | head -3 | tr '\n' ' ')"
done
