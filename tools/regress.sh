#!/bin/sh
# proofs of every property module (no bounded runs); prints one summary line each.  usage: tools/regress.sh [--mutants]
cd "$(dirname "$0")/.."
for p in C01 C05 C06 C07 C09 C10 C11 C12 C13 C17 C19 C02 C03 C08 C14 C16 C18 C20; do
  if [ -f contracts/$(echo $p | tr A-Z a-z).py ]; then
    PYVC_BUDGET=${PYVC_BUDGET:-12} python3-vt -m pyvc.check $p --no-bounded "$@" 2>&1 | grep "^property=\|^mutation\|^CHECKER\|^STALE" | tr '\n' ' '; echo
  fi
done
