"""Run the repository's pinned baseline (guard off) and report baseline tests that no longer pass.
usage: python3 tools/baseline_check.py [tree]   (default /repo)"""
import json
import os
import subprocess
import sys
import tempfile
import xml.etree.ElementTree as ET

tree = sys.argv[1] if len(sys.argv) > 1 else "/repo"
base = json.load(open("/root/.vp/BASELINE.json"))
want = set(base["stable_pass"])
fd, out = tempfile.mkstemp(suffix=".xml", dir="/verif/.work" if os.path.isdir("/verif/.work") else None)
os.close(fd)
env = dict(os.environ, PYTHONPATH=tree)
env.pop("MOKAPOT_VERIF", None)
subprocess.run("/venv/bin/python -m pytest -q -p no:cacheprovider --timeout=900 --continue-on-collection-errors "
               "--junitxml=%s >/dev/null 2>&1" % out, shell=True, cwd=tree, env=env)
ok = set()
for tc in ET.parse(out).iter("testcase"):
    if not any(c.tag in ("failure", "error", "skipped") for c in tc):
        ok.add(tc.get("classname") + "::" + tc.get("name"))
os.unlink(out)
missing = sorted(want - ok)
print("baseline %d, passing now %d, baseline tests no longer passing: %s" % (len(want), len(ok), missing))
sys.exit(1 if missing else 0)
