"""Evaluate seeded changes:  python3 tools/eval_seed.py <seed_dir> <name> <prop> [<prop> ...]

seed_dir holds patch.diff, demo.py, meta.json (from a sub-agent).  Steps, all on a scratch worktree of /repo
(never /repo itself): (1) demo passes on HEAD, (2) patch applies, demo fails, (3) the baseline test set is
unchanged, (4) the registered quick checks of the given properties are run against the patched scratch tree
(MOKAPOT_REPO) with evidence redirected, (5) the tree is restored.  Results go to /verif/seeded/<name>/."""
import json
import os
import shutil
import subprocess
import sys
import xml.etree.ElementTree as ET

VERIF = os.path.dirname(os.path.dirname(os.path.abspath(__file__)))
WT = os.environ.get("EVAL_WT", "/tmp/wt_eval")     # one scratch worktree per concurrent evaluation
PY = "/venv/bin/python"


def sh(cmd, cwd=None, env=None, timeout=3600):
    p = subprocess.run(cmd, shell=True, cwd=cwd, env=env, stdout=subprocess.PIPE, stderr=subprocess.STDOUT, text=True,
                       timeout=timeout)
    return p.returncode, p.stdout


def passed_set(tree):
    out = "/tmp/eval_junit_%d.xml" % os.getpid()
    env = dict(os.environ, PYTHONPATH=tree)
    sh("%s -m pytest -q -p no:cacheprovider --timeout=900 --continue-on-collection-errors --junitxml=%s >/dev/null 2>&1"
       % (PY, out), cwd=tree, env=env)
    ok = set()
    for tc in ET.parse(out).iter("testcase"):
        if not any(c.tag in ("failure", "error", "skipped") for c in tc):
            ok.add(tc.get("classname") + "::" + tc.get("name"))
    return ok


def main():
    seed_dir, name, props = sys.argv[1], sys.argv[2], sys.argv[3:]
    dest = os.path.join(VERIF, "seeded", name)
    os.makedirs(dest, exist_ok=True)
    for f in ("patch.diff", "demo.py", "meta.json"):
        if os.path.abspath(seed_dir) != os.path.abspath(dest):
            shutil.copy(os.path.join(seed_dir, f), os.path.join(dest, f))
    if not os.path.isdir(WT):
        sh("git -C /repo worktree add -q --detach %s HEAD" % WT)
    sh("git -C %s checkout -q --detach %s && git -C %s checkout -- . && git -C %s clean -fdq"
       % (WT, subprocess.check_output("git -C /repo rev-parse HEAD", shell=True, text=True).strip(), WT, WT))
    res = {"name": name, "properties": props}
    env = dict(os.environ, PYTHONPATH=WT)
    rc0, out0 = sh("%s %s" % (PY, os.path.join(dest, "demo.py")), cwd="/tmp", env=env, timeout=600)
    res["demo_on_head"] = {"rc": rc0, "tail": out0[-300:]}
    base = json.load(open("/root/.vp/BASELINE.json"))["stable_pass"]
    rca, outa = sh("git -C %s apply %s" % (WT, os.path.join(dest, "patch.diff")))
    res["applies"] = rca == 0
    try:
        rc1, out1 = sh("%s %s" % (PY, os.path.join(dest, "demo.py")), cwd="/tmp", env=env, timeout=600)
        res["demo_on_patched"] = {"rc": rc1, "tail": out1[-600:]}
        prev = {}
        if os.environ.get("EVAL_REUSE_TESTS") == "1":
            # re-evaluation after a harness change: the patch and the repository are the ones the recorded test
            # result was obtained on, only the checks are run again
            try:
                prev = json.load(open(os.path.join(dest, "result.json")))
            except Exception:
                prev = {}
        if "tests_passed_after_patch" in prev and "baseline_missing_after_patch" in prev:
            res["baseline_missing_after_patch"] = prev["baseline_missing_after_patch"]
            res["tests_passed_after_patch"] = prev["tests_passed_after_patch"]
            res["tests_reused_from_earlier_evaluation"] = True
        else:
            ps = passed_set(WT)
            res["baseline_missing_after_patch"] = sorted(set(base) - ps)
            res["tests_passed_after_patch"] = len(ps)
        checks = {}
        for p in props:
            outdir = os.path.join("/tmp", "eval_out_%s_%s" % (name, p))
            shutil.rmtree(outdir, ignore_errors=True)
            os.makedirs(outdir)
            e2 = dict(os.environ, MOKAPOT_REPO=WT, VERIF_OUT=outdir, VERIF_SEED="1")
            rc, out = sh("python3-vt -m pyvc.check %s --tier quick" % p, cwd=VERIF, env=e2, timeout=3600)
            lines = [l for l in out.split("\n") if l.startswith(("VIOLATION", "UNDECIDED", "STALE", "CHECKER-ERROR",
                                                                  "property="))]
            replays = {}
            for l in lines:
                if l.startswith("VIOLATION") and "replay=" in l:
                    rp = l.split("replay=")[1].split()[0]
                    try:
                        r = json.load(open(os.path.join(outdir, rp)))
                        replays[rp] = {k: r.get(k) for k in ("target", "obligation", "clause", "bounded_check",
                                                             "violation", "replayed", "inputs")}
                    except Exception as e:  # noqa
                        replays[rp] = {"error": repr(e)}
            checks[p] = {"exit": rc, "lines": [l[:400] for l in lines][:30], "replays": replays}
            shutil.rmtree(outdir, ignore_errors=True)
        res["checks"] = checks
    finally:
        sh("git -C %s checkout -- . && git -C %s clean -fdq" % (WT, WT))
    res["confirmed"] = (rc0 == 0 and res["applies"] and res.get("demo_on_patched", {}).get("rc") not in (0, None)
                        and not res.get("baseline_missing_after_patch"))
    res["detected_by"] = [p for p, c in res.get("checks", {}).items() if c["exit"] == 1]
    json.dump(res, open(os.path.join(dest, "result.json"), "w"), indent=1)
    print(name, "confirmed=%s" % res["confirmed"], "detected_by=%s" % res["detected_by"],
          {p: c["exit"] for p, c in res.get("checks", {}).items()})


if __name__ == "__main__":
    main()
