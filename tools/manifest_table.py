"""Source of MANIFEST.json (run tools/gen_manifest.py after editing)."""

NOTES = ("Technique family: contract-based deductive verification of the real code (DESIGN.md). Exit codes of every "
         "check: 0 held / 1 violation (VIOLATION line) / 2 undecided (solver timeout, nothing refuted) / 3 checker "
         "error. Properties listed under not_applicable with reason 'not built yet' are in the build queue of "
         "DESIGN.md section 7, the others are out of reach of the technique.")

_PENDING = "check not built yet (build order in DESIGN.md section 7); no claim is made for this property"

NOT_APPLICABLE = {
    "C04": "statistical claim (expected FDP over a distribution of datasets under exchangeability): not expressible "
           "as a single-run function contract; its structural premises are decided under C01/C02/C03 (DESIGN.md 5)",
}

CHECKS = {
    "C15": {
        "category": "other",
        "text": "BOUNDED ONLY - nothing is proved for this property. picked_protein, strip_peptides and groupby_max "
                "are chains of pandas operations (regex str.replace, merge, map, groupby/idxmax) with no loop or "
                "arithmetic of their own; no function on the path is within the reach of the contract verifier "
                "(DESIGN.md as-built section). Bounded stand-in: the real picked_protein / assign_confidence("
                "proteins=...) on generated FASTA databases (subset and shared-peptide structures) and peptide "
                "tables with modification and flanking notations, against an independent oracle of the statement. "
                "Two bounded findings (NaN group from unmatched decoys with a target-only FASTA; pair split when decoy group "
                "members are ordered differently) are listed in known_findings.json; the KeyError on an all-shared "
                "table is repaired (fix 8d71de7).",
        "design_ref": "DESIGN.md 4.C15",
        "note": "no deductive obligation; zero obligations is accepted for this property only because the evidence "
                "labels it bounded",
        "technique": "bounded stand-in only (enumerated / seeded-random small inputs through the real functions, "
                     "independent oracle); the contract verifier does not apply to the pandas pipeline",
    },
    "C03": {
        "category": "other",
        "text": "Deductive core + bounded stand-in. Proved for all inputs (unbounded): the de-duplication loop of "
                "assign_confidence as a block contract over an abstract row stream with a ghost emission log per "
                "level - for every stream, every level list starting with 'psms', every chunk size and both "
                "settings of the switch, each level's writer receives in stream order exactly the rows whose level "
                "key (a function of the row and the level's hash columns) occurs for the first time among the "
                "candidate rows; candidates of a higher level are the rows retained at the PSM level; no two "
                "written rows of a level share a key; with de-duplication off every row is written at the PSM "
                "level; chunked flushing and the final flush lose and duplicate nothing. Also proved: the level "
                "list is built with 'psms' first and one level per level column, each with hash columns. With the "
                "stream in non-increasing score order (C14) first-seen = a highest-scoring one. Bounded (not "
                "proof): the real assign_confidence and brew_rollup end to end on 1-3 generated collections "
                "against an independent oracle (retained rows, row integrity, order, C01 q-values on the retained "
                "rows, target/decoy files, prefixes).",
        "design_ref": "DESIGN.md 4.C03 and as-built section",
        "note": "assumed: distinct level names, one writer object per level whose content changes only through "
                "append_data, get_dataframe_from_records keeps records in order, row.get/str(list) are functions; "
                "the sort+merge producing the stream, q-value/PEP columns, LinearConfidence (pandas) and the "
                "rollup tool are bounded-only; tie-free scores in the bounded run",
        "technique": "sidecar block contracts with ghost state (emission log, first-position map) and loop "
                     "invariants on the real loop; VCs from the current ast; z3/cvc5; bounded end-to-end runs with "
                     "an independent oracle",
    },
    "C10": {
        "category": "other",
        "text": "Deductive core + bounded stand-in. Proved for all inputs (unbounded): the column-chunk arithmetic "
                "create_chunks / create_chunks_with_identifier (every feature column scanned at its place, no empty "
                "chunk, identifier columns never split, for all feature counts, 1..chunk_size identifier columns and "
                "all chunk sizes). Bounded (not proof): the same contract text evaluated on the real functions over "
                "an exhaustive small domain. Parsing of real files (pandas) is not within the verifier's reach.",
        "design_ref": "DESIGN.md 4.C10",
        "note": "python ints mathematical; list slicing/concatenation semantics of DESIGN.md 2.3; typeguard decorators "
                "dropped; pandas/pyarrow readers not modelled",
        "technique": "sidecar contracts on the real functions; VCs from the current ast; z3/cvc5; run-time contract "
                     "evaluation as bounded stand-in",
    },
    "C13": {
        "category": "other",
        "text": "Deductive core + bounded stand-in. Proved for all inputs (unbounded): BufferedWriter._buffer_slice, "
                "_write_buffer (flush loop with invariant and decreasing measure), append_data (DataFrame and Dicts "
                "buffers) and finalize against the ghost content of the wrapped writer: writer content followed by "
                "the buffer always equals everything appended, in order, for every buffer size >= 1 and every append "
                "sequence. Bounded (not proof): every reader and writer class on the installed pandas/pyarrow over "
                "small tables, all chunk sizes, column subsets, row-group layouts and append sequences; callers that "
                "go on using the list / dict / frame / record they handed to append_data are covered by this part "
                "only (object identity is outside the value-semantic contracts; the defect found there is repaired, "
                "fix 258005e). Two bounded findings are listed in known_findings.json.",
        "design_ref": "DESIGN.md 4.C13",
        "note": "frames / lists of dicts / record arrays are one value-semantic row sequence; the wrapped writer's "
                "append_data is an assumed contract (ghost sink); Records buffers, CSV/Parquet readers and value "
                "round-tripping are bounded-only",
        "technique": "sidecar contracts + ghost state on the real methods; VCs from the current ast; z3/cvc5; bounded "
                     "read/write round trips",
    },
    "C19": {
        "category": "other",
        "text": "Deductive core + bounded stand-in. Proved for all inputs (unbounded, over abstract strings with "
                "assumed split/join/strip contracts): parse_pin_header_columns, convert_line_pin_to_tsv (exactly n_col "
                "fields, fields before/after the protein column unchanged wherever it stands, proteins joined, "
                "idempotent on rectangular lines), is_valid_tsv (valid iff every line has the header's field count "
                "and no DefaultDirection line) and pin_to_valid_tsv (header first, one converted line per PSM in "
                "order, DefaultDirection dropped). Bounded (not proof): all small PIN texts through the real "
                "functions on real strings, and the CLI verify step extracted from the source at run time.",
        "design_ref": "DESIGN.md 4.C19",
        "note": "strings abstract; str.split/join/strip/startswith/+ as assumed contracts (pyvc/libstr.py), validated "
                "by the bounded run; file objects as line sequences with a cursor",
        "technique": "sidecar contracts on the real functions; VCs from the current ast; z3/cvc5; exhaustive small "
                     "texts as bounded stand-in",
    },
    "C07": {
        "category": "other",
        "text": "Deductive core + bounded stand-in. Proved for all inputs (unbounded): dataset.update_labels - the "
                "accepted-target count brew compares with the best feature is the C01 label rule applied to GENUINE "
                "targets (label == 1 / True) for integer (1/-1, 1/0) and bool label columns, through the verified "
                "contract of utils.convert_targets_column and the assumed reader contract; and the fallback block of "
                "brew (brew#fallback, calling that contract per collection): the learned scores are kept only if the "
                "models are forced or NO model's best feature passed more targets than the learned scores did; "
                "otherwise every collection gets the values of the feature with the (first) maximal pass count "
                "together with that feature's direction. Bounded (not proof): brew "
                "with estimators that cannot learn, three label encodings, both feature directions, Parquet and text; "
                "direction handling of assign_confidence; fold layouts in which one fold's model cannot see the "
                "informative feature. Two bounded findings (direction ignored by assign_confidence, NaN scores from "
                "a constant estimator) are listed in known_findings.json; the best_feat values defect is repaired "
                "(fix 17c51fb).",
        "design_ref": "DESIGN.md 4.C07",
        "note": "reader contract assumed (read(columns=[c]) returns column c of the file); DataFrame modelled as "
                "abstract frame with int/bool column views; in brew#fallback the model attributes are read-only functions "
                "of the model object, read_data(columns=[c]).values is column c (assumed) and the score-length / "
                "label-column preconditions of update_labels are block assumptions",
        "technique": "sidecar contracts on the real functions; modular call of verified callee contracts; z3/cvc5; "
                     "bounded end-to-end runs",
    },
    "C12": {
        "category": "other",
        "text": "Deductive core + bounded stand-in. Proved for all inputs (unbounded): the training block of "
                "Model.fit as a block contract with a ghost row map - after the optional shuffle position j of the "
                "feature matrix and of the label vector hold the same PSM; at every label update the score at "
                "position i is the score of dataset row i; the estimator gets one label per sample row - for shuffle "
                "on and off, every permutation and every iteration count. Bounded (not proof): recording estimators "
                "through fit/predict/save/load, row and feature-column permutations.",
        "design_ref": "DESIGN.md 4.C12",
        "note": "estimator scoring assumed row-wise (est_score), Generator.permutation / argsort-of-permutation "
                "assumed; scaler, hyper-parameter search and persistence are bounded-only",
        "technique": "block contract with ghost statements at anchors of the real function; VCs from the current "
                     "ast; z3/cvc5; recording-estimator runs as bounded stand-in",
    },
    "C01": {
        "category": "other",
        "text": "Deductive core + bounded stand-in. Proved for all inputs (unbounded): _fdr2qvalue - for every tie "
                "group structure the q-value of a group is the running minimum (from worst to best, capped at 1) of "
                "the FDR taken at the END of each tie group (spec functions start/runmin, lemma start_mono by "
                "induction, loop invariant); _update_labels - exactly the targets with q <= threshold get +1, decoys "
                "-1, other targets 0 (array and Series entry). The straight-line composition inside tdc (sort, "
                "cumulative counts, unique, flips, un-sort) is NOT proved: tdc enters as an interface contract and is "
                "decided by the bounded run: the real tdc on all weak orderings x labelings x directions for n <= 5, "
                "all dtypes and label encodings, against the defining formula.",
        "design_ref": "DESIGN.md 4.C01",
        "note": "floats as reals; numba decorator dropped (compiled code assumed to follow the source); numpy "
                "argmax / slicing / mask assignment as assumed contracts; tdc's own postcondition assumed by its "
                "callers (bounded evidence only)",
        "technique": "sidecar contracts with ghost spec functions and lemmas; loop invariants; z3/cvc5; exhaustive "
                     "small-domain run of the compiled function as bounded stand-in",
    },
    "C11": {
        "category": "other",
        "text": "Deductive core + bounded stand-in. Proved for all inputs (unbounded): dataset.calibrate_scores - "
                "RuntimeError exactly when no target is accepted at eval_fdr; otherwise result[i] == (s[i]-t)/(t-d) "
                "with t the minimum score among the accepted targets and d within the decoy scores (np.median "
                "contract), hence 0 at t, -1 at d and strictly increasing when t > d (non-linear real VC). Bounded "
                "(not proof): both calibrate_scores implementations on random vectors and the per-fold anchors "
                "through brew with a recording estimator.",
        "design_ref": "DESIGN.md 4.C11",
        "note": "floats as reals; np.median only known to lie between min and max of its argument; "
                "OnDiskPsmDataset.calibrate_scores and the per-fold loop of brew._predict are bounded-only",
        "technique": "sidecar contracts, callee contract of _update_labels (C01); z3/cvc5 incl. non-linear reals; "
                     "bounded runs",
    },
    "C17": {
        "category": "other",
        "text": "Deductive core + bounded stand-in. Proved for all sequences, site lists and parameters (unbounded), "
                "over abstract slices of the protein: _cleavage_sites (0, match ends, len; non-decreasing, in range) "
                "and _cleave for fully enzymatic digestion with optional N-terminal methionine clipping: "
                "COMPLETENESS (every slice between sites i and i+d, d <= missed_cleavages+1, within the length "
                "bounds is returned, and its clipped form when it starts with M at site 0 and stays >= min_length) "
                "and SOUNDNESS (every returned peptide is one of those; ghost witness maps). The semi-enzymatic branch "
                "is specified but its obligations are not discharged reliably, so the proof carries `not semi` as a "
                "stated precondition; semi, the regex behaviour and monotonicity are decided by the bounded run "
                "(digest exhaustively on all sequences of length <= 6 over 5 letters).",
        "design_ref": "DESIGN.md 4.C17",
        "note": "strings as abstract slices (two different slices may or may not be equal strings); re.finditer "
                "assumed to yield non-decreasing match ends inside the sequence; min_length >= 1",
        "technique": "sidecar contracts with three nested loop invariants, ghost witness maps and named candidate "
                     "spec functions; z3/cvc5; exhaustive short-sequence digest as bounded stand-in",
    },
    "C05": {
        "category": "other",
        "text": "Derived + bounded. Chunk independence is obtained as a corollary: the functions the streaming steps "
                "rest on have postconditions that determine their result from the inputs alone, in which the chunk "
                "size only positions rows, and the check verifies mechanically that no postcondition under contract "
                "mentions a constant of mokapot/constants.py. Proved for all inputs (unbounded): create_chunks, "
                "DataFrameReader and ParquetFileReader chunk iterators (chunk k = rows [k*c, ...), index = global "
                "row number). Worker/thread independence and text-vs-Parquet equality are NOT within reach of the "
                "contracts (joblib and the parsers are not modelled) and are decided by the bounded run: brew + "
                "assign_confidence under sweeps of all chunk constants, workers, perturbed task durations, formats. "
                "Two bounded findings (order of exactly tied rows; PEP column differing by up to 1e-3 between text "
                "and Parquet input on small tables) are listed in known_findings.json; the empty-fold-slice finding "
                "is repaired (fix 69febd6).",
        "design_ref": "DESIGN.md 4.C05",
        "note": "pyarrow iter_batches assumed to deliver full batches across row groups; joblib.Parallel and the "
                "pandas/pyarrow parsers are outside the contracts",
        "technique": "shared sidecar contracts (chunk arithmetic) + syntactic check of the postconditions; z3/cvc5; "
                     "bounded configuration sweeps",
    },
    "C06": {
        "category": "other",
        "text": "Mostly bounded; a thin deductive part. Proved (unbounded, relative to the assumed triqler and sorting "
                "contracts): the alignment clause of the qvality wrapper - the sort / un-sort bookkeeping returns at "
                "input position i the PEP of scores[i] for every input order. Range, monotonicity, finiteness and the "
                "other estimators are floating-point numerics behind scipy/triqler: no contract proves them; they are "
                "decided by the bounded run on random mixtures (qvality, kde_nnls, qvalues_from_counts). hist_nnls "
                "and qvalues_from_peps cannot execute under the installed SciPy. Two bounded findings on "
                "qvalues_from_counts are listed in known_findings.json.",
        "design_ref": "DESIGN.md 4.C06",
        "note": "triqler.getQvaluesFromScores assumed (PEPs of the combined list in descending score order, a "
                "function of the score value); sorting facts assumed; floats as reals",
        "technique": "block contract on the real wrapper over assumed library contracts; z3/cvc5; bounded runs of "
                     "the real estimators",
    },
    "C09": {
        "category": "other",
        "text": "Deductive core + bounded stand-in. Proved for an ARBITRARY initial file-system state (all histories "
                "of earlier runs at once): the CLI verify step - afterwards the user's PIN file holds exactly the "
                "conversion of its own former content (header, one converted line per PSM in order, DefaultDirection "
                "dropped), independent of any pre-existing '<pin>.tsv' (ghost file system; callee contract of "
                "pin_to_valid_tsv from C19). create_sorted_file_iterator / assign_confidence (pandas, joblib) are "
                "decided by the bounded run: clean vs dirty destination directories with stale chunk, level and "
                "result files, and earlier runs made to fail at every write/append/unlink call.",
        "design_ref": "DESIGN.md 4.C09",
        "note": "ghost file system (file = list of lines; open r/w/a; shutil.move) is an assumed model of the OS; "
                "temporary-file discovery and cleanup in confidence.py are bounded-only",
        "technique": "block contract with ghost file-system state on the real CLI code; z3/cvc5; fault-injection "
                     "histories as bounded stand-in",
    },
    "C14": {
        "category": "other",
        "text": "Deductive core + bounded stand-in. Proved for all inputs (unbounded), over row streams with ghost "
                "cursors: get_next_row - returns a current row of maximal score, advances exactly that stream or "
                "removes it from both dictionaries when exhausted, everything else untouched, coupling "
                "re-established; merge_sort main loop (block contract) - with a ghost emission log (source, "
                "position, inverse map) every row of every input stream is yielded EXACTLY ONCE and unmodified, "
                "and the output is globally non-increasing in score, for any number of streams, lengths and ties. "
                "The two dict comprehensions that open the readers and fetch the first rows are not modelled (they "
                "establish the coupling the loop assumes). The table merger (MergedTabularDataReader), its "
                "rejection of unsorted input, file formats and reader chunk sizes are decided by the bounded run.",
        "design_ref": "DESIGN.md 4.C14",
        "note": "iterator protocol as ghost cursor over a fixed row sequence; distinct keys hold distinct iterators; "
                "float(row[col]) a function of the row; inputs sorted non-increasing (the property's precondition)",
        "technique": "sidecar contracts with ghost state (cursor map, emission log and its inverse), modular call, "
                     "loop invariant with stepping-stone assertions; z3/cvc5; exhaustive small merges as bounded "
                     "stand-in",
    },
    "C02": {
        "category": "other",
        "text": "Deductive core + bounded stand-in. Proved for all inputs (unbounded): make_train_sets (four nested "
                "loops incl. the chunked set difference and the capped sampling) - for every fold f and collection "
                "j the training indices are rows of collection j and NONE of them is in the held-out fold f, with "
                "and without a training-size cap, and no exception escapes (since repo fix 4df4b43 a file is only "
                "sub-sampled when its cap is below its pool); _fit_model - the fitted model is tagged with its "
                "1-based fold number, the key brew sorts the models by; brew#modelidx (the fold->model index block: "
                "blocks of model numbers, argsort of the flattened folds, gather) - given that the folds of each "
                "collection are a permutation of its rows, every row is routed to the model of the fold that holds "
                "it (proved with an offset lemma by induction and stepping-stone assertions). NOT proved: "
                "OnDiskPsmDataset._split (crc32/np.unique/searchsorted), _predict and parse_in_chunks (pandas). "
                "These are decided by the bounded run: brew end to end with a recording estimator (held-out "
                "scoring, spectra never split, caps), _split and make_train_sets on random inputs. Two bounded "
                "findings (_split) are listed in known_findings.json.",
        "design_ref": "DESIGN.md 4.C02",
        "note": "list(set) = some duplicate-free enumeration; Generator.choice(replace=False) = selection from the "
                "population (ValueError if too small); zip(*x) over equally long lists; estimator internals, pandas "
                "and joblib are outside the contracts",
        "technique": "sidecar contracts with loop invariants over sets and nested lists; z3/cvc5; recording-estimator "
                     "runs as bounded stand-in",
    },
    "C08": {
        "category": "other",
        "text": "Narrow claim (see DESIGN.md 5): the headline statement relates two executions and is out of reach "
                "of single-run function contracts. Checked deductively in the weak sense of FRAME obligations: for "
                "29 functions on the seeded path the current source is scanned for tagged reads of run-to-run "
                "nondeterminism (global numpy/random RNG state, fresh entropy, string-hash-seed dependence via "
                "hash() or set iteration idioms, directory listing order) and every read outside the function's "
                "declared frame fails an obligation; declared exceptions carry their justification (integer sets, "
                "order normalised by reindex; decoy shuffling uses the global RNG by design). One ordinary contract: "
                "brew#rng_handoff - every model object that exposes an `estimator` attribute receives brew's "
                "seeded generator, whatever its class. Bounded (not proof): "
                "the same analysis twice in process and in fresh interpreters with different PYTHONHASHSEED "
                "(PercolatorModel and a plain Model built without rng), all "
                "orders of the returned models fed back. The former bounded finding (protein level with a "
                "target-only FASTA depended on the hash seed) is repaired (fix 0aea7e5).",
        "design_ref": "DESIGN.md 4.C08, 5",
        "note": "syntactic analysis of direct calls in the listed functions only; numpy/sklearn/BLAS numerics and "
                "thread timing are not modelled; determinism of each modelled function is an assumption of the "
                "verifier's semantics, not a result",
        "technique": "frame (reads) obligations by syntactic tagging of library calls; one sidecar block contract; "
                     "two-session bounded replay",
    },
    "C16": {
        "category": "other",
        "text": "Mostly bounded; two deductive loop contracts. Proved for all inputs (unbounded): the target/decoy "
                "pairing loop of read_fasta (exactly the proteins whose name does not START with the decoy prefix "
                "are mapped, each to prefix + name; has_targets / has_decoys flags) and the unique/shared split "
                "(exactly the peptides held by one group are unique and mapped to it, exactly those held by two or "
                "more are shared). _group_proteins (maximal-subset grouping, order and hash-seed independence) is a "
                "protocol-level induction over mutable maps of sets and is decided by the bounded run: all "
                "incidence structures of <= 3 proteins x 4 peptides in all entry orders and decoy layouts "
                "(<= 4 x 4 and several hash seeds in the thorough tier).",
        "design_ref": "DESIGN.md 4.C16",
        "note": "strings abstract; a group's protein set is an opaque finite set (cardinality, some element, joined "
                "string); dict iteration = insertion order",
        "technique": "block contracts with loop invariants over dictionaries; z3/cvc5; exhaustive small structures "
                     "as bounded stand-in",
    },
    "C20": {
        "category": "other",
        "text": "Deductive core + bounded stand-in. Proved for all inputs (unbounded), over abstract XML elements: "
                "_parse_psm - a hit is labelled a decoy exactly when EVERY one of its proteins (primary and "
                "alternative, first token) carries the decoy prefix; the protein list starts with the primary "
                "accession and contains the accession of every alternative_protein element and nothing else; "
                "_parse_psm#mods (block contract over character sequences) - for modifications listed at ascending "
                "positions inside the peptide, '[' mass ']' of every modification stands directly after its "
                "residue, all residues are kept in place between the brackets and the length grows by exactly the "
                "brackets (running-offset bookkeeping). The "
                "nested generators over runs / spectra / hits, the spectrum attributes, the feature post-processing "
                "and the rejection of Percolator / non-PepXML input are decided by the bounded run on generated "
                "documents.",
        "design_ref": "DESIGN.md 4.C20",
        "note": "lxml get/iter as assumed contracts; the PSM dict is a record (a search score named like a reserved "
                "key is assumed not to occur); strings abstract, in #mods a string is its character sequence and the "
                "positions are ascending and within the peptide (the property's domain)",
        "technique": "sidecar contracts with loop invariants over an element sequence, record fields and ghost "
                     "offsets; z3/cvc5; "
                     "generated PepXML documents as bounded stand-in",
    },
    "C18": {
        "category": "other",
        "text": "Deductive core + bounded stand-in. Proved for all inputs (unbounded), over character sequences: "
                "_shuffle_proteins (three nested loops incl. the retry loop and the per-length permutation cache) - "
                "every decoy is named prefix + name, has the target's length, keeps the first and last residue of "
                "every enzymatic peptide in place, and is the target read along a position map with a LEFT INVERSE "
                "(injective, hence the same residue composition; the pigeonhole step from injective to bijective is "
                "not mechanised); every cached permutation is an injective map of range(L). The exact reversal of "
                "peptide interiors, identical cleavage sites (regex), concatenated mode and the FASTA writer/reader "
                "round trip are decided by the bounded run (make_decoys + re-reading on generated FASTA files incl. "
                "all sequences of length <= 6 over 5 letters).",
        "design_ref": "DESIGN.md 4.C18",
        "note": "a string = its character list; np.random.permutation / np.flip assumed; _cleavage_sites through its "
                "verified contract; global RNG state is an input (any state)",
        "technique": "sidecar contract with ghost position maps (defseq), loop invariants, marker-triggered "
                     "sortedness; z3/cvc5; generated FASTA files as bounded stand-in",
    },
}
