"""Source of MANIFEST.json (run tools/gen_manifest.py after editing)."""

NOTES = ("Technique family: contract-based deductive verification of the real code (DESIGN.md). Exit codes of every "
         "check: 0 held / 1 violation (VIOLATION line) / 2 undecided (solver timeout, nothing refuted) / 3 checker "
         "error. Properties listed under not_applicable with reason 'not built yet' are in the build queue of "
         "DESIGN.md section 7, the others are out of reach of the technique.")

_PENDING = "check not built yet (build order in DESIGN.md section 7); no claim is made for this property"

NOT_APPLICABLE = {
    "C04": "statistical claim (expected FDP over a distribution of datasets under exchangeability): not expressible "
           "as a single-run function contract; its structural premises are decided under C01/C02/C03 (DESIGN.md 5)",
}
for _p in ["C01", "C02", "C03", "C05", "C06", "C07", "C08", "C09", "C11", "C12", "C13", "C14", "C15", "C16", "C17",
           "C18", "C19", "C20"]:
    NOT_APPLICABLE[_p] = _PENDING

CHECKS = {
    "C10": {
        "category": "other",
        "text": "Deductive core + bounded stand-in. Proved for all inputs (unbounded): the column-chunk arithmetic "
                "create_chunks / create_chunks_with_identifier (every feature column scanned at its place, no empty "
                "chunk, identifier columns never split, for all feature counts, 1..chunk_size identifier columns and "
                "all chunk sizes). Bounded (not proof): the same contract text evaluated on the real functions over "
                "an exhaustive small domain. Parsing of real files (pandas) is not within the verifier's reach.",
        "design_ref": "DESIGN.md 4.C10",
        "note": "python ints mathematical; list slicing/concatenation semantics of DESIGN.md 2.3; typeguard decorators "
                "dropped; pandas/pyarrow readers not modelled",
        "technique": "sidecar contracts on the real functions; VCs from the current ast; z3/cvc5; run-time contract "
                     "evaluation as bounded stand-in",
    },
}
