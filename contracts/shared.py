"""Contracts of small helpers used by several properties (verified once, referenced by ALSO_VERIFY)."""
from pyvc.spec import Contract, Loop, Lemma, Ghost

PROPERTY = None

create_chunks = Contract(
    target="mokapot.utils.create_chunks",
    params={"data": "list[Col]", "chunk_size": "int"},
    requires=["chunk_size >= 1"],
    returns="list[list[Col]]",
    ensures=[
        # as many chunks as needed, none empty, all but the last full, chunk j holds rows [j*c, j*c + len)
        "len(result) == (len(data) + chunk_size - 1) // chunk_size",
        "all(len(result[j]) == min(chunk_size, len(data) - j * chunk_size) for j in range(len(result)))",
        "all(len(result[j]) >= 1 for j in range(len(result)))",
        "all(result[j][i] == data[j * chunk_size + i] for j in range(len(result)) for i in range(len(result[j])))",
        # every input position is delivered, at its natural place
        "all(trig(result[p // chunk_size][p % chunk_size] == data[p], data[p]) for p in range(len(data)))",
    ],
    replay="harness.c10:create_chunks_adapter",
)

CONTRACTS = [create_chunks]
