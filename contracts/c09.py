"""C09 - a run's results depend only on its inputs, not on leftovers of earlier runs (DESIGN.md 4.C09)."""
from pyvc.spec import Contract, Loop, Lemma, Ghost
from contracts.c19 import TSV_OF, HEADER_OF

PROPERTY = "C09"
LEVEL = "other"
EXPLANATION = (
    "Deductive, over a ghost file system and for an ARBITRARY initial directory state (whatever an earlier run "
    "left behind at whatever crash point is some FS0): the CLI verify step - after it the user's PIN file holds "
    "exactly the conversion of its own former content, independent of any pre-existing '<pin>.tsv'.  Bounded "
    "stand-in: assign_confidence in clean vs dirty directories (stale chunk/level/result files, earlier runs "
    "made to fail at every write/append/unlink call) and the verify step on real files.")
ASSUMPTIONS = [
    "ghost file system: a file is a list of lines; open('r') iterates, open('w') truncates, open('a') appends, the "
    "content is in place when the with-block is left; shutil.move(src, dst) gives dst the content of src",
    "create_sorted_file_iterator / assign_confidence (pandas, joblib) are covered by the bounded run only",
]

_L = "old(FS)[path_pin]"
_H = "strip(%s[0])" % _L
_OFF = "(2 if startswith(strip(%s[1]), 'DefaultDirection') else 1)" % _L
_OUT = "FS[path_pin]"

verify_block = Contract(
    target="mokapot.mokapot.main#verify",
    block={"inside": ["if config.verify_pin:", "for path_pin in config.psm_files:", "if not valid_tsv:"],
           "start": "logging.info(", "end": "shutil.move(path_tsv, path_pin)"},
    free={"path_pin": "str", "FS": "map[str,list[str]]"},
    global_ghosts=[TSV_OF, HEADER_OF],
    assumes=[
        # the input is a PIN file: a header naming a Proteins column, >= 1 further line, every PSM line with at
        # least as many fields as the header; ':' does not contain a tab
        "len(%s) >= 2" % _L, "'Proteins' in split(%s, '\\t')" % _H, "not has_sep(':', '\\t')",
        "all(trig(len(split(strip(%s[i]), '\\t')) >= len(split(%s, '\\t')), %s[i]) for i in range(1, len(%s)))"
        % (_L, _H, _L, _L),
    ],
    ensures=[
        # the user's file is replaced by the conversion of ITS OWN former content - nothing of FS0['<pin>.tsv']
        "len(%s) == 1 + len(%s) - %s" % (_OUT, _L, _OFF),
        "%s[0] == %s + '\\n'" % (_OUT, _H),
        "all(%s[1 + j] == tsv_of(strip(%s[%s + j]), pin_header(%s, '\\t')[1], pin_header(%s, '\\t')[0], '\\t', ':') "
        "+ '\\n' for j in range(len(%s) - %s))" % (_OUT, _L, _OFF, _H, _H, _L, _OFF),
    ],
    uses=["mokapot.parsers.pin_to_tsv.pin_to_valid_tsv"],
)

CONTRACTS = [verify_block]
BOUNDED = {"module": "harness.c09"}

MUTANTS = [
    # inverse of fix d7ae711
    {"name": "inverse-fix-append-mode", "target": "mokapot.mokapot.main#verify",
     "find": "with open(path_tsv, 'w') as f_tsv:", "replace": "with open(path_tsv, 'a') as f_tsv:"},
    {"name": "converted-file-not-moved", "target": "mokapot.mokapot.main#verify",
     "find": "shutil.move(path_tsv, path_pin)", "replace": "shutil.move(path_pin, path_tsv)"},
]
