"""C07 - best-feature safety net (DESIGN.md 4.C07)."""
from pyvc.spec import Contract, Loop, Lemma, Ghost
from contracts.c01 import TDC_Q_EXT as TDC_Q

PROPERTY = "C07"
LEVEL = "other"
EXPLANATION = (
    "Deductive: dataset.update_labels - the accepted-target count that brew compares with the best feature is "
    "computed from GENUINE targets whatever the label encoding (1/-1, 1/0, bool): labels == the C01 label rule "
    "applied to (label == 1 / True).  Bounded stand-in: brew with estimators that cannot learn, three label "
    "encodings, both feature directions; the direction clause of assign_confidence is a known finding.")
ASSUMPTIONS = [
    "TabularDataReader.from_path(p).read(columns=[c]) returns column c of the file p, one value per row (assumed "
    "reader contract); a label column is an integer or a bool column",
    "the comparison block of brew (feat_total vs pred_total, replacement of the scores) is covered by the bounded run",
]

FILE_FRAME = Ghost("file_frame", "FPath -> Frame")
READER_PATH = Ghost("reader_path", "Reader -> FPath")

from_path = Contract(
    target="mokapot.tabular_data.TabularDataReader.from_path",
    params={"file_name": "FPath"}, returns="Reader", skip_body=True, global_ghosts=[READER_PATH],
    ensures=["reader_path(result) == file_name"],
    notes="assumed: the reader reads the file it was created for",
)

LIB_CONTRACTS = [
    Contract(target="lib:Reader.read", params={"self": "Reader", "columns": "list[str]"}, returns="Frame",
             skip_body=True, global_ghosts=[READER_PATH, FILE_FRAME],
             ensures=[
                 "fr_len(result) == fr_len(file_frame(reader_path(self)))",
                 "all(fr_isbool(result, columns[k]) == fr_isbool(file_frame(reader_path(self)), columns[k]) and "
                 "fr_int(result, columns[k]) == fr_int(file_frame(reader_path(self)), columns[k]) and "
                 "fr_bool(result, columns[k]) == fr_bool(file_frame(reader_path(self)), columns[k]) "
                 "for k in range(len(columns)))",
             ],
             notes="assumed: read(columns) returns the requested columns of the file, all rows, in file order"),
]

_T = "fr_targets(file_frame(file_name), target_column)"

update_labels = Contract(
    target="mokapot.dataset.update_labels",
    params={"file_name": "FPath", "scores": "nd[real]", "target_column": "str", "eval_fdr": "real", "desc": "bool"},
    defaults={"eval_fdr": "0.01", "desc": "True"},
    returns="nd[real]",
    global_ghosts=[TDC_Q, FILE_FRAME, READER_PATH],
    requires=[
        "len(scores) == fr_len(file_frame(file_name))", "len(scores) >= 1",
        # the label column is well formed (otherwise ValueError, see C10)
        "fr_isbool(file_frame(file_name), target_column) or all(-1 <= fr_int(file_frame(file_name), "
        "target_column)[i] <= 1 for i in range(fr_len(file_frame(file_name))))",
    ],
    ensures=[
        "len(result) == len(scores)",
        # +1: genuine targets (label 1 / True) accepted at eval_fdr; -1: every other row (decoys); 0: other targets
        "all(result[i] == (-1 if not %s[i] else (1 if tdc_q(scores, %s, desc)[i] <= eval_fdr else 0)) "
        "for i in range(len(scores)))" % (_T, _T),
    ],
    ghost_at=[
        {"after": "df = reader.read(", "do": [
            "assert fr_len(df) == fr_len(file_frame(file_name))",
            "assert fr_isbool(df, target_column) == fr_isbool(file_frame(file_name), target_column)",
            "assert fr_int(df, target_column) == fr_int(file_frame(file_name), target_column)",
            "assert fr_bool(df, target_column) == fr_bool(file_frame(file_name), target_column)",
        ]},
        {"after": "df = utils.convert_targets_column(", "do": [
            "assert fr_isbool(df, target_column)",
            "assert all(fr_bool(df, target_column)[i] == %s[i] for i in range(len(scores)))" % _T,
        ]},
    ],
    uses=["mokapot.dataset._update_labels", "mokapot.utils.convert_targets_column",
          "mokapot.tabular_data.TabularDataReader.from_path"],
    replay="harness.c07:update_labels_adapter",
)

CONTRACTS = [update_labels, from_path]
BOUNDED = {"module": "harness.c07"}

MUTANTS = [
    # inverse of fix b0e9f4a
    {"name": "inverse-fix-no-label-conversion", "target": "mokapot.dataset.update_labels",
     "find": "    df = utils.convert_targets_column(df, target_column)\n    return _update_labels(\n        scores=scores,\n        targets=df[target_column],",
     "replace": "    return _update_labels(\n        scores=scores,\n        targets=df[target_column],"},
    {"name": "desc-not-forwarded", "target": "mokapot.dataset.update_labels",
     "find": "        eval_fdr=eval_fdr,\n        desc=desc,\n    )", "replace": "        eval_fdr=eval_fdr,\n        desc=True,\n    )"},
]
