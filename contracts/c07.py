"""C07 - best-feature safety net (DESIGN.md 4.C07)."""
from pyvc.spec import Contract, Loop, Lemma, Ghost
from contracts.c01 import TDC_Q_EXT as TDC_Q

PROPERTY = "C07"
LEVEL = "other"
EXPLANATION = (
    "Deductive: brew#fallback - the decision between learned scores and best feature (first maximal pass count, "
    "strict comparison with the accepted-target count, feature values + direction handed back); "
    "dataset.update_labels - the accepted-target count that brew compares with the best feature is "
    "computed from GENUINE targets whatever the label encoding (1/-1, 1/0, bool): labels == the C01 label rule "
    "applied to (label == 1 / True).  Bounded stand-in: brew with estimators that cannot learn, three label "
    "encodings, both feature directions; the direction clause of assign_confidence is a known finding.")
ASSUMPTIONS = [
    "TabularDataReader.from_path(p).read(columns=[c]) returns column c of the file p, one value per row (assumed "
    "reader contract); a label column is an integer or a bool column",
    "brew#fallback: the models' best_feat / feat_pass / desc / override are read-only attributes; "
    "read_data(columns=[c]).values is column c (assumed); the lengths and label-column facts that update_labels "
    "requires are block assumptions (established by the prediction code before the block, bounded-only)",
]

FILE_FRAME = Ghost("file_frame", "FPath -> Frame")
READER_PATH = Ghost("reader_path", "Reader -> FPath")

from_path = Contract(
    target="mokapot.tabular_data.TabularDataReader.from_path",
    params={"file_name": "FPath"}, returns="Reader", skip_body=True, global_ghosts=[READER_PATH],
    ensures=["reader_path(result) == file_name"],
    notes="assumed: the reader reads the file it was created for",
)

LIB_CONTRACTS = [
    Contract(target="lib:Reader.read", params={"self": "Reader", "columns": "list[str]"}, returns="Frame",
             skip_body=True, global_ghosts=[READER_PATH, FILE_FRAME],
             ensures=[
                 "fr_len(result) == fr_len(file_frame(reader_path(self)))",
                 "all(fr_isbool(result, columns[k]) == fr_isbool(file_frame(reader_path(self)), columns[k]) and "
                 "fr_int(result, columns[k]) == fr_int(file_frame(reader_path(self)), columns[k]) and "
                 "fr_bool(result, columns[k]) == fr_bool(file_frame(reader_path(self)), columns[k]) "
                 "for k in range(len(columns)))",
             ],
             notes="assumed: read(columns) returns the requested columns of the file, all rows, in file order"),
]

_T = "fr_targets(file_frame(file_name), target_column)"

update_labels = Contract(
    target="mokapot.dataset.update_labels",
    params={"file_name": "FPath", "scores": "nd[real]", "target_column": "str", "eval_fdr": "real", "desc": "bool"},
    defaults={"eval_fdr": "0.01", "desc": "True"},
    returns="nd[real]",
    global_ghosts=[TDC_Q, FILE_FRAME, READER_PATH],
    requires=[
        "len(scores) == fr_len(file_frame(file_name))", "len(scores) >= 1",
        # the label column is well formed (otherwise ValueError, see C10)
        "fr_isbool(file_frame(file_name), target_column) or all(-1 <= fr_int(file_frame(file_name), "
        "target_column)[i] <= 1 for i in range(fr_len(file_frame(file_name))))",
    ],
    ensures=[
        "len(result) == len(scores)",
        # +1: genuine targets (label 1 / True) accepted at eval_fdr; -1: every other row (decoys); 0: other targets
        "all(result[i] == (-1 if not %s[i] else (1 if tdc_q(scores, %s, desc)[i] <= eval_fdr else 0)) "
        "for i in range(len(scores)))" % (_T, _T),
    ],
    ghost_at=[
        {"after": "df = reader.read(", "do": [
            "assert fr_len(df) == fr_len(file_frame(file_name))",
            "assert fr_isbool(df, target_column) == fr_isbool(file_frame(file_name), target_column)",
            "assert fr_int(df, target_column) == fr_int(file_frame(file_name), target_column)",
            "assert fr_bool(df, target_column) == fr_bool(file_frame(file_name), target_column)",
        ]},
        {"after": "df = utils.convert_targets_column(", "do": [
            "assert fr_isbool(df, target_column)",
            "assert all(fr_bool(df, target_column)[i] == %s[i] for i in range(len(scores)))" % _T,
        ]},
    ],
    uses=["mokapot.dataset._update_labels", "mokapot.utils.convert_targets_column",
          "mokapot.tabular_data.TabularDataReader.from_path"],
    replay="harness.c07:update_labels_adapter",
)

COLV = Ghost("col_values", "Psms, str -> nd[real]")

LIB_CONTRACTS.append(
    Contract(target="lib:Psms.read_data", params={"self": "Psms", "columns": "list[str]"}, returns="nd[real]",
             skip_body=True, global_ghosts=[COLV], requires=["len(columns) == 1"],
             ensures=["same(result, col_values(self, columns[0]))"],
             notes="assumed: read_data(columns=[c]).values is column c of the collection, one value per PSM"))

_FILE = "file_frame(psms[i].filename)"
psum_nonneg = Lemma(
    "psum_nonneg", {"xs": "list[int]", "k": "int"},
    requires=["all(xs[j] >= 0 for j in range(len(xs)))", "0 <= k <= len(xs)"],
    ensures=["psum(xs, k) >= 0"], induct="k")

brew_tail = Contract(
    target="mokapot.brew.brew#fallback",
    block={"start": "if not all([m.override for m in models])", "end": "if feat_total > pred_total:"},
    free={"models": "list[ModelObj]", "psms": "list[Psms]", "scores": "list[nd[real]]", "test_fdr": "real"},
    fields={"ModelObj.override": "bool", "ModelObj.best_feat": "str", "ModelObj.feat_pass": "int",
            "ModelObj.desc": "bool", "Psms.filename": "FPath", "Psms.target_column": "str"},
    global_ghosts=[TDC_Q, FILE_FRAME, READER_PATH, COLV],
    locals={"preds": "list[nd[real]]", "descs": "list[bool]", "pred_total": "int", "feat_total": "int",
            "best_feat_idx": "int", "using_best_feat": "bool", "feat": "str", "desc": "bool"},
    assumes=[
        # one fitted (or failed) model per fold, one score vector per collection (established by the code before)
        "len(models) >= 1", "len(scores) == len(psms)",
        # the preconditions of update_labels for every collection: one score per row, well-formed label column
        "all(len(scores[i]) == fr_len(%s) and len(scores[i]) >= 1 for i in range(len(psms)))" % _FILE,
        "all(fr_isbool(%s, psms[i].target_column) or all(-1 <= fr_int(%s, psms[i].target_column)[r] <= 1 "
        "for r in range(fr_len(%s))) for i in range(len(psms)))" % (_FILE, _FILE, _FILE),
    ],
    lemmas=[psum_nonneg],
    ghost_at=[{"after": "pred_total = sum(", "do": [
        "lemma psum_nonneg([(pred == 1).sum() for pred in preds], len(preds))",
        "assert pred_total >= 0"]}],
    witness={},
    ensures=[
        "len(descs) == len(psms) and len(scores) == len(psms)",
        # falling back: some model's best feature passed more targets than the learned scores (pred_total, counted
        # by update_labels on genuine targets) and no model's feature passed more than that one; every collection
        # then gets that feature's values together with its direction
        "implies(using_best_feat, 0 <= best_feat_idx < len(models) and "
        "all(models[j].feat_pass <= models[best_feat_idx].feat_pass for j in range(len(models))) and "
        "models[best_feat_idx].feat_pass > pred_total and "
        "all(descs[i] == models[best_feat_idx].desc and "
        "same(scores[i], col_values(psms[i], models[best_feat_idx].best_feat)) for i in range(len(psms))))",
        # keeping the learned scores: only if the user forces the model(s) or no best feature beats them
        "implies(not using_best_feat, same(scores, old(scores)) and all(descs[i] for i in range(len(psms))) and "
        "(all(models[j].override for j in range(len(models))) or "
        "all(models[j].feat_pass <= pred_total for j in range(len(models)))))",
    ],
    uses=["mokapot.dataset.update_labels"],
)

CONTRACTS = [update_labels, from_path, brew_tail]
BOUNDED = {"module": "harness.c07"}

MUTANTS = [
    {"name": "forced-models-counted-as-one-pass", "target": "mokapot.brew.brew#fallback",
     "find": "        feat_total = 0\n", "replace": "        feat_total = 1\n"},
    # inverse of fix b0e9f4a
    {"name": "inverse-fix-no-label-conversion", "target": "mokapot.dataset.update_labels",
     "find": "    df = utils.convert_targets_column(df, target_column)\n    return _update_labels(\n        scores=scores,\n        targets=df[target_column],",
     "replace": "    return _update_labels(\n        scores=scores,\n        targets=df[target_column],"},
    {"name": "desc-not-forwarded", "target": "mokapot.dataset.update_labels",
     "find": "        eval_fdr=eval_fdr,\n        desc=desc,\n    )", "replace": "        eval_fdr=eval_fdr,\n        desc=True,\n    )"},
    {"name": "fallback-only-when-strictly-more-than-twice", "target": "mokapot.brew.brew#fallback",
     "find": "    if feat_total > pred_total:", "replace": "    if feat_total > 2 * pred_total:"},
    {"name": "fallback-takes-the-worst-feature", "target": "mokapot.brew.brew#fallback",
     "find": "        best_feat_idx, feat_total = max(", "replace": "        best_feat_idx, feat_total = min("},
    {"name": "fallback-direction-dropped", "target": "mokapot.brew.brew#fallback",
     "find": "        descs = [desc] * len(psms)", "replace": "        descs = [True] * len(psms)"},
    {"name": "fallback-keeps-learned-scores", "target": "mokapot.brew.brew#fallback",
     "find": "                columns=[feat],", "replace": "                columns=[best_feats[0][0]],"},
    {"name": "fallback-feature-of-first-model", "target": "mokapot.brew.brew#fallback",
     "find": "        feat, _, desc = best_feats[best_feat_idx]", "replace": "        feat, _, desc = best_feats[0]"},
]
