"""C18 - generated decoys preserve length, composition and cleavage structure (DESIGN.md 4.C18)."""
from pyvc.spec import Contract, Loop, Lemma, Ghost

PROPERTY = "C18"
LEVEL = "other"
EXPLANATION = (
    "Deductive: _shuffle_proteins over character sequences - for every protein the decoy is named prefix + name, "
    "has the same length, keeps the first and last residue of every enzymatic peptide in place, is a re-arrangement "
    "of the target along an INJECTIVE position map that never leaves a peptide (hence the same residue "
    "composition), and with the reversal option the interior of every peptide is exactly reversed; the cache of "
    "permutations per length only ever holds injective maps of range(L).  Bounded stand-in: make_decoys + "
    "re-reading on generated FASTA files (empty sequences, no cleavage site, multi-line records, long sequences, "
    "several files, both modes, several RNG states).")
ASSUMPTIONS = [
    "a string and its character list are the same value (list(s), ''.join(chars)); characters are abstract",
    "np.random.permutation(arange(n)) returns a permutation of range(n) (global RNG); np.flip reverses",
    "_cleavage_sites through its verified contract (0 first, len(sequence) last, in range, sorted); which positions "
    "are sites is the regex engine's business (bounded)",
    "'same composition' is stated as: decoy[p] == target[pi[p]] for an injective pi that maps every peptide into "
    "itself (a bijection by finiteness - the pigeonhole step is not mechanised)",
    "the FASTA writer / reader (text wrapping, parsing) are covered by the bounded run only",
]

_N = "len(seq)"
_UT = "(sites[start_idx] if start_idx < len(sites) else len(seq))"

# the cache holds, for every length L, a map of range(L) into itself with a LEFT INVERSE (hence injective)
_PERMS_OK = ("forall(lambda L: implies(L in perms, len(perms[L]) == L and len(ghost_iperms[L]) == L and "
             "all(0 <= perms[L][j] < L and ghost_iperms[L][perms[L][j]] == j for j in range(L))), "
             "trigger=lambda L: perms[L])")


def per_protein(tgt, dec, S, upto):
    return [
        # first and last residue of every enzymatic peptide stay in place
        "all(implies(i + 1 < len({S}) and {S}[i] < {S}[i + 1], {dec}[{S}[i]] == {tgt}[{S}[i]] and "
        "{dec}[{S}[i + 1] - 1] == {tgt}[{S}[i + 1] - 1]) for i in range({upto}))".format(S=S, dec=dec, tgt=tgt, upto=upto),
    ]


def composition(tgt, dec, pi, ip):
    return [
        "len({pi}) == len({tgt}) and len({ip}) == len({tgt})".format(pi=pi, ip=ip, tgt=tgt),
        # the decoy is the target read along the position map pi, and pi has a left inverse (so it is injective:
        # no residue is used twice - the same composition)
        "all(0 <= {pi}[p] < len({tgt}) and {dec}[p] == {tgt}[{pi}[p]] and {ip}[{pi}[p]] == p "
        "for p in range(len({tgt})))".format(pi=pi, ip=ip, tgt=tgt, dec=dec),
    ]


_SITES_FACTS = lambda S, n: [
    "len(%s) >= 2 and %s[0] == 0 and %s[len(%s) - 1] == %s" % (S, S, S, S, n),
    "all(0 <= %s[k] <= %s for k in range(len(%s)))" % (S, n, S),
    "forall(lambda a, b: implies(0 <= a <= b < len(%s), %s[a] <= %s[b]), trigger=lambda a, b: marked('ord', a, b))"
    % (S, S, S),
]


def outer(upto, decoys="decoys"):
    tgt, dec, S, pi, ip = "proteins[m][1]", "%s[m][1]" % decoys, "ghost_sites[m]", "ghost_pis[m]", "ghost_ips[m]"
    cl = ["%s[m][0] == decoy_prefix + proteins[m][0]" % decoys,
          "len(%s) == len(%s)" % (dec, tgt)]
    cl += per_protein(tgt, dec, S, "len(%s)" % S)
    cl += composition(tgt, dec, pi, ip)
    cl += ["len(%s) >= 2 and %s[0] == 0 and %s[len(%s) - 1] == len(%s)" % (S, S, S, S, tgt)]
    return ["all(%s for m in range(%s))" % (c, upto) for c in cl]


shuffle = Contract(
    target="mokapot.parsers.fasta._shuffle_proteins",
    params={"proteins": "list[tuple[str,list[Char]]]", "decoy_prefix": "str", "enzyme": "Regex", "reverse": "bool"},
    returns="list[tuple[str,list[Char]]]",
    locals={"decoys": "list[tuple[str,list[Char]]]", "perms": "dict[int,nd[int]]", "new_seq": "list[Char]",
            "ghost_sites": "list[list[int]]", "ghost_pis": "list[list[int]]", "ghost_ips": "list[list[int]]",
            "ghost_pi": "list[int]", "ghost_ip": "list[int]", "ghost_iperms": "map[int,list[int]]",
            "ghost_pinv": "list[int]", "perm": "nd[int]", "base": "nd[int]"},
    entry_ghost=["ghost ghost_ll0: list[list[int]]", "ghost ghost_iperms: map[int,list[int]]"],
    ghost_at=[
        {"before": "decoys = []", "do": ["let ghost_sites = ghost_ll0[0:0]", "let ghost_pis = ghost_ll0[0:0]",
                                         "let ghost_ips = ghost_ll0[0:0]"]},
        {"after": "new_seq = list(seq)", "do": ["defseq ghost_pi[p : len(seq)] = p", "defseq ghost_ip[p : len(seq)] = p"]},
        {"before": "start = cleavage_site + 1", "do": ["mark ord(start_idx, end_idx)",
                                                       "assert sites[start_idx] <= sites[end_idx]"]},
        # the cached permutation and its (ghost) left inverse
        {"after": "perms[pep_len] = np.flip(", "do": ["set ghost_iperms[pep_len] = perms[pep_len]"]},
        {"after": "perm = base", "do": ["defseq ghost_pinv[q : pep_len] = q"]},
        {"after": "perm = np.random.permutation(base)", "do": ["defseq ghost_pinv[q : pep_len] = inv(perm, q)"]},
        {"after": "perms[pep_len] = perm", "do": ["set ghost_iperms[pep_len] = ghost_pinv"]},
        {"before": "new_seq[start:end] = [new_seq[i + start] for i in perms[pep_len]]", "do": [
            "assert 0 <= start and start + pep_len == end and end <= len(seq)",
            "assert pep_len in perms and len(perms[pep_len]) == pep_len",
            "defseq ghost_pi[p : len(seq)] = (start + perms[pep_len][p - start]) if start <= p < end else ghost_pi[p]",
            "defseq ghost_ip[q : len(seq)] = (start + ghost_iperms[pep_len][q - start]) if start <= q < end "
            "else ghost_ip[q]",
        ]},
        {"after": "new_seq[start:end] = [new_seq[i + start] for i in perms[pep_len]]", "do": [
            # stepping stones for the re-arranged interior
            "assert all(0 <= perms[pep_len][p - start] < pep_len for p in range(start, end))",
            "assert all(new_seq[p] == seq[start + perms[pep_len][p - start]] for p in range(start, end))",
            "assert all(ghost_pi[p] == start + perms[pep_len][p - start] for p in range(start, end))",
            "assert all(ghost_ip[ghost_pi[p]] == p for p in range(start, end))",
        ]},
        {"before": "decoys.append([decoy_prot,", "do": [
            "let ghost_sites = ghost_sites + [sites]", "let ghost_pis = ghost_pis + [ghost_pi]",
            "let ghost_ips = ghost_ips + [ghost_ip]"]},
    ],
    exit_ghost=["let gsites = ghost_sites", "let gpis = ghost_pis"],
    ensures=["len(result) == len(proteins)", "len(ghost_sites) == len(proteins)", "len(ghost_pis) == len(proteins)"]
    + outer("len(proteins)", "result"),
    loops={
        0: Loop(invariant=["len(decoys) == _k0", "len(ghost_sites) == _k0", "len(ghost_pis) == _k0",
                           "len(ghost_ips) == _k0", _PERMS_OK] + outer("_k0")),
        1: Loop(ghost_pre=["mark ord(start_idx, start_idx + 1)", "mark ord(0, start_idx)",
                           "mark ord(start_idx + 1, len(sites) - 1)"],
                invariant=[
            "len(new_seq) == len(seq)", _PERMS_OK,
            "all(new_seq[p] == seq[p] for p in range(%s, len(seq)))" % _UT,
            "all(ghost_pi[p] == p and ghost_ip[p] == p for p in range(%s, len(seq)))" % _UT,
            "all(ghost_pi[p] < %s for p in range(%s))" % (_UT, _UT),
            # the sites seen so far lie below the untouched region
            "all(implies(i < len(sites), sites[i] <= %s) for i in range(start_idx + 1))" % _UT,
        ] + per_protein("seq", "new_seq", "sites", "start_idx") + composition("seq", "new_seq", "ghost_pi", "ghost_ip")
          ),   # (facts about `sites` persist: the loop does not assign it)
        2: Loop(invariant=[
            "len(perm) == pep_len", "len(base) == pep_len", "len(ghost_pinv) == pep_len",
            "all(base[j] == j for j in range(pep_len))",
            "all(0 <= perm[j] < pep_len and ghost_pinv[perm[j]] == j for j in range(pep_len))",
        ]),
    },
    uses=["mokapot.parsers.fasta._cleavage_sites"],
)

CONTRACTS = [shuffle]
BOUNDED = {"module": "harness.c18"}

MUTANTS = [
    # (anchor-preserving variants: the mutated statement is not one a ghost anchor is attached to)
    {"name": "peptide-length-one-too-long", "target": "mokapot.parsers.fasta._shuffle_proteins",
     "find": "            pep_len = end - start\n", "replace": "            pep_len = end - start + 1\n"},
    {"name": "window-starts-at-the-cleavage-site", "target": "mokapot.parsers.fasta._shuffle_proteins",
     "find": "            end = sites[end_idx] - 1\n            pep_len = end - start\n",
     "replace": "            end = sites[end_idx] - 1\n            start = start - 1\n            pep_len = end - start\n"},
    {"name": "last-residue-shuffled-too", "target": "mokapot.parsers.fasta._shuffle_proteins",
     "find": "            end = sites[end_idx] - 1", "replace": "            end = sites[end_idx]"},
    {"name": "first-residue-shuffled-too", "target": "mokapot.parsers.fasta._shuffle_proteins",
     "find": "            start = cleavage_site + 1", "replace": "            start = cleavage_site"},
    {"name": "sample-with-repetition", "target": "mokapot.parsers.fasta._shuffle_proteins",
     "find": "            new_seq[start:end] = [new_seq[i + start] for i in perms[pep_len]]",
     "replace": "            new_seq[start:end] = [new_seq[start] for i in perms[pep_len]]"},
    {"name": "prefix-as-suffix", "target": "mokapot.parsers.fasta._shuffle_proteins",
     "find": "        decoy_prot = decoy_prefix + prot", "replace": "        decoy_prot = prot + decoy_prefix"},
    {"name": "interior-read-from-wrong-offset", "target": "mokapot.parsers.fasta._shuffle_proteins",
     "find": "            new_seq[start:end] = [new_seq[i + start] for i in perms[pep_len]]",
     "replace": "            new_seq[start:end] = [new_seq[i + start - 1] for i in perms[pep_len]]"},
    {"name": "cache-keyed-by-wrong-length", "target": "mokapot.parsers.fasta._shuffle_proteins",
     "find": "                    perms[pep_len] = np.flip(np.arange(pep_len))",
     "replace": "                    perms[pep_len] = np.flip(np.arange(pep_len + 1))"},
]
