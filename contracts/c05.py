"""C05 - results do not depend on chunk sizes, worker count, thread timing or file format (DESIGN.md 4.C05)."""
from pyvc.spec import Contract, Loop, Lemma, Ghost

PROPERTY = "C05"
LEVEL = "other"
EXPLANATION = (
    "Derived rather than tested: a postcondition that determines the result from the inputs alone and never "
    "mentions a chunk-size constant IS chunk independence for that function.  Deductive: the chunk arithmetic "
    "every streaming step rests on - create_chunks (chunk j = rows [j*c, ...), nothing lost), the chunked "
    "iterators of DataFrameReader and ParquetFileReader (chunk k = rows [k*c, ...), index = global row number, "
    "which is what makes zip(file chunks, score chunks) pair equal row ranges) - each with a postcondition in "
    "which the chunk size only positions the rows; the check also verifies mechanically that no postcondition "
    "under contract mentions a constant of mokapot/constants.py.  Bounded stand-in: brew + assign_confidence "
    "under sweeps of all five chunk constants, worker counts, perturbed task durations, text vs Parquet.")
ASSUMPTIONS = [
    "pyarrow iter_batches delivers full batches across row groups (assumed contract, validated by the bounded run)",
    "joblib.Parallel runs every task exactly once and returns results in task order (not modelled deductively: "
    "thread interleavings are covered by the bounded run only)",
    "equality of parsed VALUES between text and Parquet is a property of the pandas/pyarrow parsers (bounded only)",
]

CONTRACTS = []
ALSO_VERIFY = [
    ("shared", "mokapot.utils.create_chunks"),
    ("c13", "mokapot.tabular_data.DataFrameReader.get_chunked_data_iterator"),
    ("c13", "mokapot.tabular_data.ParquetFileReader.get_chunked_data_iterator"),
]
# chunk independence by construction: none of these names may occur in an `ensures` of the contracts above
FORBIDDEN_IN_ENSURES = ["CONFIDENCE_CHUNK_SIZE", "CHUNK_SIZE_READ_ALL_DATA", "CHUNK_SIZE_ROWS_PREDICTION",
                        "CHUNK_SIZE_COLUMNS_FOR_DROP_COLUMNS", "CHUNK_SIZE_ROWS_FOR_DROP_COLUMNS",
                        "MERGE_SORT_CHUNK_SIZE"]
BOUNDED = {"module": "harness.c05"}
