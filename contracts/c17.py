"""C17 - in-silico digestion returns exactly the peptides the enzyme rules allow (DESIGN.md 4.C17)."""
from pyvc.spec import Contract, Loop, Lemma, Ghost

PROPERTY = "C17"
LEVEL = "other"
EXPLANATION = (
    "Deductive: _cleavage_sites (0, the match ends, len(sequence); non-decreasing) and _cleave over abstract "
    "slices of the protein: COMPLETENESS - every enzymatic slice within the missed-cleavage and length bounds, "
    "its clipped form and its semi-enzymatic prefixes/suffixes are in the result; SOUNDNESS - every member is one "
    "of those (ghost witness maps), for all sequences, site lists and parameters.  Bounded stand-in: digest "
    "exhaustively on short sequences against a regex-based oracle (validates the regex contract).")
ASSUMPTIONS = [
    "strings are abstract slices of the protein (s[a:b] has length b-a; slicing a slice composes); two different "
    "slices may or may not be equal strings",
    "re.finditer yields matches left to right with non-decreasing ends inside the sequence (assumed); which "
    "positions match is the regex engine's business (bounded run)",
    "min_length >= 1 (the property's domain)",
]

LIB_CONTRACTS = [
    Contract(target="lib:Regex.finditer", params={"self": "Regex", "s": "bstr"}, returns="list[Match]",
             skip_body=True, global_ghosts=[Ghost("match_end", "Match -> int")],
             ensures=["all(0 <= match_end(result[k]) <= len(s) for k in range(len(result)))",
                      "all(match_end(result[a]) <= match_end(result[b]) for a in range(len(result)) "
                      "for b in range(a, len(result)))"],
             notes="re: matches are found left to right; their ends are non-decreasing and inside the string"),
    Contract(target="lib:Match.end", params={"self": "Match"}, returns="int", skip_body=True,
             global_ghosts=[Ghost("match_end", "Match -> int")], ensures=["result == match_end(self)"]),
]

cleavage_sites = Contract(
    target="mokapot.parsers.fasta._cleavage_sites",
    params={"sequence": "bstr", "enzyme_regex": "Regex"},
    tags={"enzyme_regex": []},
    returns="list[int]",
    ensures=[
        "len(result) >= 2", "result[0] == 0", "result[len(result) - 1] == len(sequence)",
        "all(0 <= result[k] <= len(sequence) for k in range(len(result)))",
        # pairwise sortedness, behind a marker trigger (used on demand: assert marked('ord', a, b) first)
        "forall(lambda a, b: implies(0 <= a <= b < len(result), result[a] <= result[b]), "
        "trigger=lambda a, b: marked('ord', a, b))",
    ],
)

MC = "missed_cleavages"
# spec functions naming the candidate slices (clean e-matching triggers; each is DEFINED as a slice of the protein)
GHOSTS = [
    Ghost("cand", "int, int -> Pep", axioms=[
        "forall(lambda i, d: same(cand(i, d), pep(sequence, sites[i], sites[i + d])), "
        "trigger=lambda i, d: cand(i, d))"]),
    Ghost("clipc", "int -> Pep", axioms=[
        "forall(lambda d: same(clipc(d), pep(sequence, sites[0] + 1, sites[d])), trigger=lambda d: clipc(d))"]),
    Ghost("suf", "int, int, int -> Pep", axioms=[
        "forall(lambda i, d, x: same(suf(i, d, x), pep(sequence, sites[i] + x, sites[i + d])), "
        "trigger=lambda i, d, x: suf(i, d, x))"]),
    Ghost("pre", "int, int, int -> Pep", axioms=[
        "forall(lambda i, d, x: same(pre(i, d, x), pep(sequence, sites[i], sites[i + d] - x)), "
        "trigger=lambda i, d, x: pre(i, d, x))"]),
]
ENZ_OK = lambda i, d: "(%s + %s < len(sites) and min_length <= sites[%s + %s] - sites[%s] <= max_length)" % (i, d, i, d, i)
ENZ_IN = lambda i, d, res: "implies(%s, cand(%s, %s) in %s)" % (ENZ_OK(i, d), i, d, res)
CLIP_OK = lambda d: ("(clip_nterm_met and %s and starts_at(sequence, sites[0], 'M') and "
                     "sites[%s] - sites[0] - 1 >= min_length)" % (ENZ_OK("0", d), d))
CLIP_IN = lambda d, res: "implies(%s, clipc(%s) in %s)" % (CLIP_OK(d), d, res)
SEMI_OK = lambda i, d, x: "(semi and %s and sites[%s + %s] - sites[%s] - %s >= min_length)" % (ENZ_OK(i, d), i, d, i, x)
SEMI_IN = lambda i, d, x, res: ("implies(%s, suf(%s, %s, %s) in %s and pre(%s, %s, %s) in %s)"
                                % (SEMI_OK(i, d, x), i, d, x, res, i, d, x, res))
DR = "range(1, %s + 2)" % MC


def completeness(res, i_range, extra_i=None, d_lt=None, x_lt=None):
    """completeness clauses for all start indices in i_range (text); optionally also for start index extra_i with
    d < d_lt (and for (extra_i, d_lt) with x < x_lt)."""
    out = [
        "all(trig(%s, cand(i, d)) for i in %s for d in %s)" % (ENZ_IN("i", "d", res), i_range, DR),
        "all(trig(%s, suf(i, d, x)) for i in %s for d in %s for x in range(1, sites[i + d] - sites[i]))"
        % (SEMI_IN("i", "d", "x", res), i_range, DR),
    ]
    if extra_i is None:
        out.append("all(trig(%s, clipc(d)) for d in %s)" % (CLIP_IN("d", res), DR))
    else:
        out.append("implies(%s >= 1, all(trig(%s, clipc(d)) for d in %s))" % (extra_i, CLIP_IN("d", res), DR))
        out += [
            "all(trig(%s, cand(%s, d)) for d in range(1, %s))" % (ENZ_IN(extra_i, "d", res), extra_i, d_lt),
            "all(trig(%s, suf(%s, d, x)) for d in range(1, %s) for x in range(1, sites[%s + d] - sites[%s]))"
            % (SEMI_IN(extra_i, "d", "x", res), extra_i, d_lt, extra_i, extra_i),
            "implies(%s == 0, all(trig(%s, clipc(d)) for d in range(1, %s)))" % (extra_i, CLIP_IN("d", res), d_lt),
        ]
        if x_lt is not None:
            out += [
                ENZ_IN(extra_i, d_lt, res),
                "implies(%s == 0, %s)" % (extra_i, CLIP_IN(d_lt, res)),
                "all(trig(%s, suf(%s, %s, x)) for x in range(1, %s))"
                % (SEMI_IN(extra_i, d_lt, "x", res), extra_i, d_lt, x_lt),
            ]
    return out


def valid(t):
    gi, gd, gx, gk = "ghost_i[%s]" % t, "ghost_d[%s]" % t, "ghost_x[%s]" % t, "ghost_k[%s]" % t
    ln = "(sites[%s + %s] - sites[%s])" % (gi, gd, gi)
    return (
        "(0 <= {gi} and 1 <= {gd} <= {mc} + 1 and {ok} and ("
        "({gk} == 0 and same({p}, cand({gi}, {gd}))) or "
        "({gk} == 1 and clip_nterm_met and {gi} == 0 and starts_at(sequence, sites[0], 'M') and "
        "sites[{gd}] - sites[0] - 1 >= min_length and same({p}, clipc({gd}))) or "
        "({gk} == 2 and semi and 1 <= {gx} < {ln} and {ln} - {gx} >= min_length and "
        "same({p}, suf({gi}, {gd}, {gx}))) or "
        "({gk} == 3 and semi and 1 <= {gx} < {ln} and {ln} - {gx} >= min_length and "
        "same({p}, pre({gi}, {gd}, {gx})))))"
    ).format(gi=gi, gd=gd, gx=gx, gk=gk, mc=MC, ok=ENZ_OK(gi, gd), ln=ln, p=t)


VALID = valid("p")
SOUND_INV = "forall(lambda p: implies(p in peptides, %s), types={'p': 'Pep'}, trigger=lambda p: p in peptides)" % VALID

# the property-level (existential) form of soundness; proved from the ghost witness maps
SOUND_ENS = (
    "forall(lambda p: implies(p in result, any(any("
    "{ok} and (same(p, cand(i, d)) or "
    "(clip_nterm_met and i == 0 and starts_at(sequence, sites[0], 'M') and sites[d] - sites[0] - 1 >= min_length "
    "and same(p, clipc(d))) or "
    "any(semi and sites[i + d] - sites[i] - x >= min_length and (same(p, suf(i, d, x)) or same(p, pre(i, d, x))) "
    "for x in range(1, sites[i + d] - sites[i]))) "
    "for d in {dr}) for i in range(len(sites)))), types={{'p': 'Pep'}}, trigger=lambda p: p in result)"
).format(ok=ENZ_OK("i", "d"), dr=DR)

# ghost witness updates: a (re-)entered peptide simply takes the current loop position as its witness
_UPD = lambda term, kind, x: [
    "set ghost_i[%s] = start_idx" % term,
    "set ghost_d[%s] = diff_idx" % term,
    "set ghost_x[%s] = %s" % (term, x),
    "set ghost_k[%s] = %s" % (term, kind),
]

_SITES_OK = [
    "len(sites) >= 2", "sites[0] == 0", "sites[len(sites) - 1] == len(sequence)",
    "all(0 <= sites[k] <= len(sequence) for k in range(len(sites)))",
]
_SITES_SORTED = ["forall(lambda a, b: implies(0 <= a <= b < len(sites), sites[a] <= sites[b]), "
                 "trigger=lambda a, b: marked('ord', a, b))"]

cleave = Contract(
    target="mokapot.parsers.fasta._cleave",
    params={"sequence": "bstr", "sites": "list[int]", MC: "int", "min_length": "int", "max_length": "int",
            "semi": "bool", "clip_nterm_met": "bool"},
    returns="set[Pep]",
    ghosts=GHOSTS,
    # scope of the PROOF: fully enzymatic digestion with optional N-terminal methionine clipping.  The semi-enzymatic
    # branch (third nested loop) is specified below as well, but its obligations are not discharged reliably by
    # the solvers within the budget; it is decided by the bounded run only.
    requires=_SITES_OK + _SITES_SORTED + ["missed_cleavages >= 0", "min_length >= 1", "not semi"],
    lemmas=[Lemma("sorted", {"a": "int", "b": "int"}, requires=["0 <= a <= b < len(sites)"],
                  ensures=["sites[a] <= sites[b]"], hints=["requires"], uses=["mark ord(a, b)"])],
    locals={"peptides": "set[Pep]", "ghost_i": "map[Pep,int]", "ghost_d": "map[Pep,int]", "ghost_x": "map[Pep,int]",
            "ghost_k": "map[Pep,int]"},
    entry_ghost=["ghost ghost_i: map[Pep,int]", "ghost ghost_d: map[Pep,int]", "ghost ghost_x: map[Pep,int]",
                 "ghost ghost_k: map[Pep,int]"],
    ghost_at=[
        # stepping stones: the slices built by the code ARE the named candidates (small obligations of their own)
        {"before": "end_site = sites[end_idx]", "do": ["lemma sorted(start_idx, end_idx)"]},
        {"before": "peptides.add(peptide)", "do": [
            "assert 0 <= start_site <= end_site <= len(sequence)",
            "assert same(peptide, cand(start_idx, diff_idx))"] + _UPD("peptide", 0, 0)},
        {"before": "peptides.add(peptide[1:])", "do": [
            "assert same(peptide[1:], clipc(diff_idx))"] + _UPD("peptide[1:]", 1, 0)},
        {"before": "semi_pep = {peptide[idx:], peptide[:-idx]}", "do": [
            "assert 1 <= idx < end_site - start_site",
            "assert same(peptide[idx:], suf(start_idx, diff_idx, idx))",
            "assert same(peptide[:-idx], pre(start_idx, diff_idx, idx))"]},
        {"before": "peptides = peptides.union(semi_pep)",
         "do": _UPD("peptide[idx:]", 2, "idx") + _UPD("peptide[:-idx]", 3, "idx")},
    ],
    loops={
        0: Loop(invariant=[SOUND_INV] + completeness("peptides", "range(start_idx)", "start_idx", "1")[:3]),
        1: Loop(invariant=[SOUND_INV] + completeness("peptides", "range(start_idx)", "start_idx", "diff_idx")),
        2: Loop(invariant=[SOUND_INV, "end_idx == start_idx + diff_idx", "end_idx < len(sites)",
                           "start_site == sites[start_idx]", "end_site == sites[end_idx]",
                           "same(peptide, cand(start_idx, diff_idx))",
                           "min_length <= end_site - start_site <= max_length"]
                + completeness("peptides", "range(start_idx)", "start_idx", "diff_idx", "idx")),
    },
    ensures=completeness("result", "range(len(sites))") + [SOUND_ENS],
    witness={SOUND_ENS: {"i": "ghost_i[p]", "d": "ghost_d[p]", "x": "ghost_x[p]"}},
)

CONTRACTS = [cleavage_sites, cleave]
BOUNDED = {"module": "harness.c17"}

MUTANTS = [
    {"name": "one-missed-cleavage-too-few", "target": "mokapot.parsers.fasta._cleave",
     "find": "for diff_idx in range(1, missed_cleavages + 2):", "replace": "for diff_idx in range(1, missed_cleavages + 1):"},
    {"name": "one-missed-cleavage-too-many", "target": "mokapot.parsers.fasta._cleave",
     "find": "for diff_idx in range(1, missed_cleavages + 2):", "replace": "for diff_idx in range(1, missed_cleavages + 3):"},
    {"name": "last-site-never-used", "target": "mokapot.parsers.fasta._cleave",
     "find": "            if end_idx >= len(sites):", "replace": "            if end_idx >= len(sites) - 1:"},
    {"name": "min-length-exclusive", "target": "mokapot.parsers.fasta._cleave",
     "find": "if len(peptide) < min_length or len(peptide) > max_length:",
     "replace": "if len(peptide) <= min_length or len(peptide) > max_length:"},
    {"name": "max-length-exclusive", "target": "mokapot.parsers.fasta._cleave",
     "find": "if len(peptide) < min_length or len(peptide) > max_length:",
     "replace": "if len(peptide) < min_length or len(peptide) >= max_length:"},
    {"name": "clip-at-every-start", "target": "mokapot.parsers.fasta._cleave",
     "find": "if clip_nterm_met and not start_idx and peptide.startswith(\"M\"):",
     "replace": "if clip_nterm_met and peptide.startswith(\"M\"):"},
    {"name": "clip-ignores-min-length", "target": "mokapot.parsers.fasta._cleave",
     "find": "                if len(peptide[1:]) >= min_length:\n                    peptides.add(peptide[1:])",
     "replace": "                if True:\n                    peptides.add(peptide[1:])"},
    {"name": "clip-two-residues", "target": "mokapot.parsers.fasta._cleave",
     "find": "                    peptides.add(peptide[1:])", "replace": "                    peptides.add(peptide[2:])"},
    {"name": "sites-without-sequence-end", "target": "mokapot.parsers.fasta._cleavage_sites",
     "find": "        + [len(sequence)]\n", "replace": "        + [len(sequence) - 1]\n"},
    {"name": "sites-without-zero", "target": "mokapot.parsers.fasta._cleavage_sites",
     "find": "        [0]\n        + [m.end()", "replace": "        [1]\n        + [m.end()"},
]
