"""C20 - PepXML parsing turns every search hit into one faithful PSM (DESIGN.md 4.C20)."""
from pyvc.spec import Contract, Loop, Lemma, Ghost

PROPERTY = "C20"
LEVEL = "other"
EXPLANATION = (
    "Deductive: _parse_psm over abstract XML elements - the label and protein clauses: a hit is labelled a decoy "
    "exactly when EVERY one of its proteins (primary and alternative, first token of the attribute) carries the "
    "decoy prefix; the protein list starts with the primary accession and contains the accession of every "
    "alternative_protein element (and nothing else), peptide and calculated mass are taken from the hit.  The "
    "modification insertion (string surgery with a running offset), the nested generators over runs / spectra / "
    "hits and the feature post-processing are decided by the bounded run on generated documents.")
ASSUMPTIONS = [
    "lxml: element.get(name) is the attribute or None; element.iter(*tags) yields the matching descendants in "
    "document order; each yielded element's tag contains exactly the query it matched",
    "the PSM dictionary is a record: a search_score whose name equals a reserved key (label, proteins, peptide ...) "
    "would overwrite it - assumed not to occur",
    "strings abstract (split / startswith / join as in pyvc/libstr.py)",
]

_P0 = "first_token(attr(psm_info, 'protein'))"
_E = "descendants(psm_info)"
_ISMOD = lambda j: "tag_has(%s[%s], 'modification_info')" % (_E, j)
_ISALT = lambda j: "(not %s and tag_has(%s[%s], 'alternative_protein'))" % (_ISMOD(j), _E, j)
_ACC = lambda j: "first_token(attr(%s[%s], 'protein'))" % (_E, j)
_TARGETISH = lambda acc: "(not startswith(%s, decoy_prefix))" % acc

parse_psm = Contract(
    target="mokapot.parsers.pepxml._parse_psm",
    params={"psm_info": "Elem", "spec_info": "rec", "decoy_prefix": "str"},
    locals={"psm[label]": "bool", "psm[proteins]": "list[str]", "psm[peptide]": "str", "psm[calc_mass]": "real",
            "offset": "int", "mod_pep": "str", "idx": "int", "mass": "str"},
    requires=[
        "attr(psm_info, 'protein') is not None", "attr(psm_info, 'peptide') is not None",
        "attr(psm_info, 'calc_neutral_pep_mass') is not None",
        # every alternative_protein element names its protein
        "all(implies(%s, attr(%s[j], 'protein') is not None) for j in range(len(%s)))" % (_ISALT("j"), _E, _E),
    ],
    exit_ghost=["let out_label = psm['label']", "let out_proteins = plist"],
    ensures=[
        # target iff SOME protein lacks the decoy prefix  <=>  decoy iff EVERY protein carries it
        "iff(out_label, %s or any(%s and %s for j in range(len(%s))))"
        % (_TARGETISH(_P0), _ISALT("j"), _TARGETISH(_ACC("j")), _E),
        # proteins: the primary accession first, then the alternative accessions - all of them and nothing else
        "len(out_proteins) >= 1 and out_proteins[0] == %s" % _P0,
        "all(implies(%s, %s in out_proteins) for j in range(len(%s)))" % (_ISALT("j"), _ACC("j"), _E),
        "all(out_proteins[p] == %s or any(%s and out_proteins[p] == %s for j in range(len(%s))) "
        "for p in range(len(out_proteins)))" % (_P0, _ISALT("j"), _ACC("j"), _E),
    ],
    ghost_at=[{"before": "psm['proteins'] = '\\t'.join(psm['proteins'])", "do": ["let plist = psm['proteins']"]}],
    loops={
        0: Loop(invariant=[
            "iff(psm['label'], %s or any(%s and %s for j in range(_k0)))"
            % (_TARGETISH(_P0), _ISALT("j"), _TARGETISH(_ACC("j"))),
            "len(psm['proteins']) >= 1 and psm['proteins'][0] == %s" % _P0,
            "all(implies(%s, %s in psm['proteins']) for j in range(_k0))" % (_ISALT("j"), _ACC("j")),
            "all(psm['proteins'][p] == %s or any(%s and psm['proteins'][p] == %s for j in range(_k0)) "
            "for p in range(len(psm['proteins'])))" % (_P0, _ISALT("j"), _ACC("j")),
        ]),
        # the modification loop (string surgery) is not specified: bounded only
        1: Loop(invariant=["True"]),
    },
    raises={"TypeError": "True", "ValueError": "True"},
    abstract_ok=["mod_pep = mod_pep[:idx]", "idx = offset + int(", "offset += 2 + len(mass)"],
)

CONTRACTS = [parse_psm]
BOUNDED = {"module": "harness.c20"}

MUTANTS = [
    {"name": "decoy-if-any-protein-is-decoy", "target": "mokapot.parsers.pepxml._parse_psm",
     "find": "            if not psm[\"label\"]:\n                psm[\"label\"] = not psm[\"proteins\"][-1].startswith(decoy_prefix)",
     "replace": "            if psm[\"label\"]:\n                psm[\"label\"] = not psm[\"proteins\"][-1].startswith(decoy_prefix)"},
    {"name": "label-from-last-protein-only", "target": "mokapot.parsers.pepxml._parse_psm",
     "find": "            if not psm[\"label\"]:\n                psm[\"label\"] = not psm[\"proteins\"][-1].startswith(decoy_prefix)",
     "replace": "            psm[\"label\"] = not psm[\"proteins\"][-1].startswith(decoy_prefix)"},
    {"name": "alternative-proteins-dropped", "target": "mokapot.parsers.pepxml._parse_psm",
     "find": "            psm[\"proteins\"].append(element.get(\"protein\").split(\" \")[0])\n", "replace": ""},
    {"name": "label-checks-first-protein-again", "target": "mokapot.parsers.pepxml._parse_psm",
     "find": "                psm[\"label\"] = not psm[\"proteins\"][-1].startswith(decoy_prefix)",
     "replace": "                psm[\"label\"] = not psm[\"proteins\"][0].startswith(decoy_prefix)"},
]
