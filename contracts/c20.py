"""C20 - PepXML parsing turns every search hit into one faithful PSM (DESIGN.md 4.C20)."""
from pyvc.spec import Contract, Loop, Lemma, Ghost

PROPERTY = "C20"
LEVEL = "other"
EXPLANATION = (
    "Deductive: _parse_psm over abstract XML elements - the label and protein clauses: a hit is labelled a decoy "
    "exactly when EVERY one of its proteins (primary and alternative, first token of the attribute) carries the "
    "decoy prefix; the protein list starts with the primary accession and contains the accession of every "
    "alternative_protein element (and nothing else), peptide and calculated mass are taken from the hit; "
    "_parse_psm#mods - the modification loop over character sequences: for modifications listed at ascending "
    "positions inside the peptide, '[' mass ']' of modification i stands directly after the first position(i) "
    "residues, the residues between two modifications and after the last one are the peptide's in place, the "
    "length grows by exactly the brackets.  The nested generators over runs / spectra / hits and the feature "
    "post-processing are decided by the bounded run on generated documents.")
ASSUMPTIONS = [
    "lxml: element.get(name) is the attribute or None; element.iter(*tags) yields the matching descendants in "
    "document order; each yielded element's tag contains exactly the query it matched",
    "the PSM dictionary is a record: a search_score whose name equals a reserved key (label, proteins, peptide ...) "
    "would overwrite it - assumed not to occur",
    "strings abstract (split / startswith / join as in pyvc/libstr.py)",
    "#mods: a string and its character sequence are the same value; mod.get('mass') being None raises the "
    "TypeError at the assignment instead of at the concatenation two lines later (same iteration, no effect in "
    "between); int(position) is a function of the attribute text",
]

_P0 = "first_token(attr(psm_info, 'protein'))"
_E = "descendants(psm_info)"
_ISMOD = lambda j: "tag_has(%s[%s], 'modification_info')" % (_E, j)
_ISALT = lambda j: "(not %s and tag_has(%s[%s], 'alternative_protein'))" % (_ISMOD(j), _E, j)
_ACC = lambda j: "first_token(attr(%s[%s], 'protein'))" % (_E, j)
_TARGETISH = lambda acc: "(not startswith(%s, decoy_prefix))" % acc

parse_psm = Contract(
    target="mokapot.parsers.pepxml._parse_psm",
    params={"psm_info": "Elem", "spec_info": "rec", "decoy_prefix": "str"},
    locals={"psm[label]": "bool", "psm[proteins]": "list[str]", "psm[peptide]": "str", "psm[calc_mass]": "real",
            "offset": "int", "mod_pep": "str", "idx": "int", "mass": "str"},
    requires=[
        "attr(psm_info, 'protein') is not None", "attr(psm_info, 'peptide') is not None",
        "attr(psm_info, 'calc_neutral_pep_mass') is not None",
        # every alternative_protein element names its protein
        "all(implies(%s, attr(%s[j], 'protein') is not None) for j in range(len(%s)))" % (_ISALT("j"), _E, _E),
    ],
    exit_ghost=["let out_label = psm['label']", "let out_proteins = plist"],
    ensures=[
        # target iff SOME protein lacks the decoy prefix  <=>  decoy iff EVERY protein carries it
        "iff(out_label, %s or any(%s and %s for j in range(len(%s))))"
        % (_TARGETISH(_P0), _ISALT("j"), _TARGETISH(_ACC("j")), _E),
        # proteins: the primary accession first, then the alternative accessions - all of them and nothing else
        "len(out_proteins) >= 1 and out_proteins[0] == %s" % _P0,
        "all(implies(%s, %s in out_proteins) for j in range(len(%s)))" % (_ISALT("j"), _ACC("j"), _E),
        "all(out_proteins[p] == %s or any(%s and out_proteins[p] == %s for j in range(len(%s))) "
        "for p in range(len(out_proteins)))" % (_P0, _ISALT("j"), _ACC("j"), _E),
    ],
    ghost_at=[{"before": "psm['proteins'] = '\\t'.join(psm['proteins'])", "do": ["let plist = psm['proteins']"]}],
    loops={
        0: Loop(invariant=[
            "iff(psm['label'], %s or any(%s and %s for j in range(_k0)))"
            % (_TARGETISH(_P0), _ISALT("j"), _TARGETISH(_ACC("j"))),
            "len(psm['proteins']) >= 1 and psm['proteins'][0] == %s" % _P0,
            "all(implies(%s, %s in psm['proteins']) for j in range(_k0))" % (_ISALT("j"), _ACC("j")),
            "all(psm['proteins'][p] == %s or any(%s and psm['proteins'][p] == %s for j in range(_k0)) "
            "for p in range(len(psm['proteins'])))" % (_P0, _ISALT("j"), _ACC("j")),
        ]),
        # the modification loop (string surgery) is not specified: bounded only
        1: Loop(invariant=["True"]),
    },
    raises={"TypeError": "True", "ValueError": "True"},
    # the string surgery is verified by the #mods block below; the final join only changes the representation of the
    # protein list (the contract speaks about the list before it, ghost plist)
    abstract_ok=["mod_pep = mod_pep[:idx]", "idx = offset + int(", "offset += 2 + len(mass)",
                 "psm['proteins'] = '\\t'.join("],
)

# ---------------------------------------------------------------------------------------------------------------
# the modification loop: string surgery with a running offset, over character sequences
_M = "xml_iter(element, '{*}mod_aminoacid_mass')"
_POS = lambda i: "int(attr(%s[%s], 'position'))" % (_M, i)
_MASS = lambda i: "chars(attr(%s[%s], 'mass'))" % (_M, i)
_PREV = lambda i: "(%s if %s > 0 else 0)" % (_POS("%s - 1" % i), i)
_K = "_k0"


def _mods_facts(k):
    """what holds after the first k modifications were spliced in (mod_pep, offset, ghost_off)"""
    return [
        "len(ghost_off) == %s" % k,
        "offset >= 0 and len(mod_pep) == len(P) + offset",
        # ghost_off[i] = total length of the brackets inserted before modification i
        "all(ghost_off[i] >= 0 and ghost_off[i] + 2 + len(%s) <= offset for i in range(%s))" % (_MASS("i"), k),
        "implies(%s > 0, offset == ghost_off[%s - 1] + 2 + len(%s))" % (k, k, _MASS("%s - 1" % k)),
        "implies(%s == 0, offset == 0)" % k,
        # each modification sits DIRECTLY AFTER its residue: '[' mass ']' follows the first POS(i) residues ...
        "all(mod_pep[ghost_off[i] + %s] == chars('[')[0] and "
        "mod_pep[ghost_off[i] + %s + 1 + len(%s)] == chars(']')[0] and "
        "all(mod_pep[ghost_off[i] + %s + 1 + j] == %s[j] for j in range(len(%s))) for i in range(%s))"
        % (_POS("i"), _POS("i"), _MASS("i"), _POS("i"), _MASS("i"), _MASS("i"), k),
        # ... the residues between two modifications are the peptide's, in place (shifted by the brackets before)
        "all(all(mod_pep[ghost_off[i] + q] == P[q] for q in range(%s, %s)) for i in range(%s))"
        % (_PREV("i"), _POS("i"), k),
        # ... and so are the residues after the last modification
        "all(mod_pep[offset + q] == P[q] for q in range(%s, len(P)))" % _PREV(k),
    ]


mods = Contract(
    target="mokapot.parsers.pepxml._parse_psm#mods",
    block={"inside": ["for element in psm_info.iter(", "if 'modification_info' in element.tag:"],
           "start": "offset = 0", "end": "for mod in element.iter("},
    free={"psm": "rec", "element": "Elem"},
    locals={"psm[peptide]": "list[Char]", "mod_pep": "list[Char]", "mass": "list[Char]", "offset": "int",
            "idx": "int", "ghost_off": "list[int]"},
    entry_ghost=["let P = psm['peptide']", "ghost ghost_l0: list[int]", "let ghost_off = ghost_l0[0:0]"],
    assumes=[
        # the quantifier domain of the property: modifications listed at ascending positions inside the peptide
        "forall(lambda a, b: implies(0 <= a <= b < len(%s), %s <= %s), trigger=lambda a, b: (%s[a], %s[b]))"
        % (_M, _POS("a"), _POS("b"), _M, _M),
        "all(0 <= %s <= len(P) for i in range(len(%s)))" % (_POS("i"), _M),
    ],
    loops={0: Loop(ghost_pre=["let ghost_off = ghost_off + [offset]"], invariant=_mods_facts(_K))},
    ensures=_mods_facts("len(%s)" % _M)[1:],
    raises={"TypeError": "True", "ValueError": "True"},
)

CONTRACTS = [parse_psm, mods]
BOUNDED = {"module": "harness.c20"}

MUTANTS = [
    {"name": "offset-misses-one-bracket", "target": "mokapot.parsers.pepxml._parse_psm#mods",
     "find": "offset += 2 + len(mass)", "replace": "offset += 1 + len(mass)"},
    {"name": "position-without-offset", "target": "mokapot.parsers.pepxml._parse_psm#mods",
     "find": "idx = offset + int(mod.get(\"position\"))", "replace": "idx = int(mod.get(\"position\"))"},
    {"name": "residue-after-the-modification-dropped", "target": "mokapot.parsers.pepxml._parse_psm#mods",
     "find": "+ \"]\" + mod_pep[idx:]", "replace": "+ \"]\" + mod_pep[idx + 1:]"},
    {"name": "modification-before-its-residue", "target": "mokapot.parsers.pepxml._parse_psm#mods",
     "find": "idx = offset + int(mod.get(\"position\"))", "replace": "idx = offset + int(mod.get(\"position\")) - 1"},
    {"name": "round-brackets", "target": "mokapot.parsers.pepxml._parse_psm#mods",
     "find": "mod_pep[:idx] + \"[\" + mass", "replace": "mod_pep[:idx] + \"(\" + mass"},
    {"name": "mass-inserted-twice", "target": "mokapot.parsers.pepxml._parse_psm#mods",
     "find": "+ \"[\" + mass + \"]\"", "replace": "+ \"[\" + mass + mass + \"]\""},
    {"name": "decoy-if-any-protein-is-decoy", "target": "mokapot.parsers.pepxml._parse_psm",
     "find": "            if not psm[\"label\"]:\n                psm[\"label\"] = not psm[\"proteins\"][-1].startswith(decoy_prefix)",
     "replace": "            if psm[\"label\"]:\n                psm[\"label\"] = not psm[\"proteins\"][-1].startswith(decoy_prefix)"},
    {"name": "label-from-last-protein-only", "target": "mokapot.parsers.pepxml._parse_psm",
     "find": "            if not psm[\"label\"]:\n                psm[\"label\"] = not psm[\"proteins\"][-1].startswith(decoy_prefix)",
     "replace": "            psm[\"label\"] = not psm[\"proteins\"][-1].startswith(decoy_prefix)"},
    {"name": "alternative-proteins-dropped", "target": "mokapot.parsers.pepxml._parse_psm",
     "find": "            psm[\"proteins\"].append(element.get(\"protein\").split(\" \")[0])\n", "replace": ""},
    {"name": "label-checks-first-protein-again", "target": "mokapot.parsers.pepxml._parse_psm",
     "find": "                psm[\"label\"] = not psm[\"proteins\"][-1].startswith(decoy_prefix)",
     "replace": "                psm[\"label\"] = not psm[\"proteins\"][0].startswith(decoy_prefix)"},
]
