"""C11 - per-fold score calibration is order preserving and anchors 0 and -1 (DESIGN.md 4.C11)."""
from pyvc.spec import Contract, Loop, Lemma, Ghost
from contracts.c01 import TDC_Q

PROPERTY = "C11"
LEVEL = "other"
EXPLANATION = (
    "Deductive: calibrate_scores against its defining formula - result[i] == (s[i] - t) / (t - d) with t the "
    "minimum score among the targets accepted at eval_fdr and d between the smallest and largest decoy score "
    "(assumed contract of np.median), anchors 0 and -1, strict monotonicity when t > d, RuntimeError exactly "
    "when no target is accepted.  Bounded stand-in: the real functions on random vectors and per-fold anchors "
    "through brew.")
ASSUMPTIONS = [
    "floating point treated as real arithmetic; scores finite",
    "np.median is only known to lie between the minimum and maximum of its argument and to be a function of it",
    "OnDiskPsmDataset.calibrate_scores (reader + label conversion, then the same formula) is covered by the "
    "bounded run only",
]

_ACC = "(targets[%s] and tdc_q(scores, targets, desc)[%s] <= eval_fdr)"

calibrate = Contract(
    target="mokapot.dataset.calibrate_scores",
    params={"scores": "nd[real]", "targets": "nd[bool]", "eval_fdr": "real", "desc": "bool"},
    defaults={"desc": "True"},
    tags={"scores": ["np.ndarray"], "targets": ["np.ndarray"]},
    returns="nd[real]",
    global_ghosts=[TDC_Q],
    requires=["len(scores) == len(targets)", "len(scores) >= 1",
              "any(not targets[i] for i in range(len(scores)))"],    # at least one decoy (median of an empty array is nan)
    raises={"RuntimeError": "not any(%s for i in range(len(scores)))" % (_ACC % ("i", "i"))},
    exit_ghost=["let t = target_score", "let d = decoy_score"],
    ensures=[
        "len(result) == len(scores)",
        # some target is accepted (otherwise the function must have raised)
        "any(%s for i in range(len(scores)))" % (_ACC % ("i", "i")),
        # t is the minimum score among the accepted targets
        "any(%s and scores[i] == t for i in range(len(scores)))" % (_ACC % ("i", "i")),
        "all(implies(%s, t <= scores[i]) for i in range(len(scores)))" % (_ACC % ("i", "i")),
        # d lies within the decoy scores (np.median contract)
        "any(not targets[i] and scores[i] <= d for i in range(len(scores)))",
        "any(not targets[i] and scores[i] >= d for i in range(len(scores)))",
        # the calibration formula; anchors; order
        "implies(t != d, all(result[i] == (scores[i] - t) / (t - d) for i in range(len(scores))))",
        "implies(t != d, all(implies(scores[i] == t, result[i] == 0) for i in range(len(scores))))",
        "implies(t != d, all(implies(scores[i] == d, result[i] == -1) for i in range(len(scores))))",
        "implies(t > d, all(implies(scores[i] < scores[j], result[i] < result[j]) "
        "for i in range(len(scores)) for j in range(len(scores))))",
    ],
    witness={
        "any(%s for i in range(len(scores)))" % (_ACC % ("i", "i")): None,
    },
    uses=["mokapot.dataset._update_labels"],
    replay="harness.c11:calibrate_adapter",
)
calibrate.witness = {}

CONTRACTS = [calibrate]
BOUNDED = {"module": "harness.c11"}

MUTANTS = [
    {"name": "anchors-swapped", "target": "mokapot.dataset.calibrate_scores",
     "find": "    return (scores - target_score) / (target_score - decoy_score)",
     "replace": "    return (scores - decoy_score) / (target_score - decoy_score)"},
    {"name": "max-instead-of-min", "target": "mokapot.dataset.calibrate_scores",
     "find": "    target_score = np.min(scores[pos])", "replace": "    target_score = np.max(scores[pos])"},
    {"name": "median-of-targets", "target": "mokapot.dataset.calibrate_scores",
     "find": "    decoy_score = np.median(scores[labels == -1])", "replace": "    decoy_score = np.median(scores[labels == 0])"},
    {"name": "no-error-when-nothing-accepted", "target": "mokapot.dataset.calibrate_scores",
     "find": "    if not pos.sum():", "replace": "    if False:"},
]
