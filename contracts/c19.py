"""C19 - PIN -> rectangular TSV conversion is lossless, order-preserving and idempotent (DESIGN.md 4.C19)."""
from pyvc.spec import Contract, Loop, Lemma, Ghost

PROPERTY = "C19"
LEVEL = "other"
EXPLANATION = (
    "Deductive: parse_pin_header_columns, convert_line_pin_to_tsv, is_valid_tsv and pin_to_valid_tsv verified "
    "against field-level postconditions over abstract strings (str.split/join/strip as assumed contracts). "
    "Bounded stand-in: all small PIN texts through the real functions, incl. idempotence and the CLI verify step.")
ASSUMPTIONS = [
    "strings are abstract; str.split / str.join / str.strip / str.startswith / + follow the assumed contracts of "
    "pyvc/libstr.py (validated by the bounded run on real strings)",
    "a file object is a sequence of lines with a cursor; write() appends one string",
]

TSV_OF = Ghost("tsv_of", "str, int, int, str, str -> str")
HEADER_OF = Ghost("pin_header", "str, str -> tuple[int,int]")

_E = "split(line, sep_column)"

parse_header = Contract(
    target="mokapot.parsers.pin_to_tsv.parse_pin_header_columns",
    params={"header": "str", "sep_column": "str"},
    defaults={"sep_column": "'\\t'"},
    returns="tuple[int,int]",
    global_ghosts=[HEADER_OF],
    result_fn="pin_header",
    raises={"AssertionError": "not ('Proteins' in split(strip(header), sep_column))"},
    ensures=[
        "'Proteins' in split(strip(header), sep_column)",
        "result[0] == len(split(strip(header), sep_column))",
        "0 <= result[1] < result[0]",
        "split(strip(header), sep_column)[result[1]] == 'Proteins'",
        "all(split(strip(header), sep_column)[i] != 'Proteins' for i in range(result[1]))",
    ],
)

convert_line = Contract(
    target="mokapot.parsers.pin_to_tsv.convert_line_pin_to_tsv",
    params={"line": "str", "idx_protein_col": "int", "n_col": "int", "sep_column": "str", "sep_protein": "str"},
    defaults={"sep_column": "'\\t'", "sep_protein": "':'"},
    returns="str",
    global_ghosts=[TSV_OF],
    result_fn="tsv_of",
    requires=[
        "0 <= idx_protein_col < n_col",
        "len(%s) >= n_col" % _E,                        # a PSM line has at least one protein
        "not has_sep(sep_protein, sep_column)",
    ],
    ensures=[
        # rectangular: exactly n_col fields
        "len(split(result, sep_column)) == n_col",
        # fields before the protein column unchanged
        "all(split(result, sep_column)[i] == %s[i] for i in range(idx_protein_col))" % _E,
        # the protein field holds all proteins joined by the protein separator
        "split(result, sep_column)[idx_protein_col] == join(sep_protein, "
        "%s[idx_protein_col:idx_protein_col + len(%s) - n_col + 1])" % (_E, _E),
        # fields after the protein column unchanged (shifted), wherever the protein column stands
        "all(split(result, sep_column)[i] == %s[i + len(%s) - n_col] for i in range(idx_protein_col + 1, n_col))"
        % (_E, _E),
        # idempotence: a line that already is rectangular is returned unchanged
        "implies(len(%s) == n_col, result == line)" % _E,
    ],
    options={"join_congruence": True},
    replay="harness.c19:convert_line_adapter",
)

_L = "f_in.items"

is_valid = Contract(
    target="mokapot.parsers.pin_to_tsv.is_valid_tsv",
    params={"f_in": "iter[str]", "sep_column": "str"},
    defaults={"sep_column": "'\\t'"},
    returns="bool",
    requires=["f_in.pos == 0"],
    raises={"StopIteration": "len(f_in.items) < 2"},   # header-only file: outside the property's quantifier
    ensures=[
        "result == (not startswith(%s[1], 'DefaultDirection') and "
        "all(len(split(%s[i], sep_column)) == len(split(%s[0], sep_column)) for i in range(1, len(%s))))"
        % (_L, _L, _L, _L),
    ],
    loops={0: Loop(invariant=[
        "all(len(split(%s[i], sep_column)) == n_col_header for i in range(1, 2 + _k0))" % _L,
        "n_col_header == len(split(%s[0], sep_column))" % _L,
        "not startswith(%s[1], 'DefaultDirection')" % _L,
    ])},
    replay="harness.c19:is_valid_adapter",
)

_H = "strip(%s[0])" % _L
_OFF = "(2 if startswith(strip(%s[1]), 'DefaultDirection') else 1)" % _L

to_valid = Contract(
    target="mokapot.parsers.pin_to_tsv.pin_to_valid_tsv",
    params={"f_in": "iter[str]", "f_out": "list[str]", "sep_column": "str", "sep_protein": "str"},
    defaults={"sep_column": "'\\t'", "sep_protein": "':'"},
    modifies=["f_out"],
    global_ghosts=[TSV_OF, HEADER_OF],
    requires=[
        "f_in.pos == 0", "len(%s) >= 2" % _L,
        "'Proteins' in split(%s, sep_column)" % _H,
        "not has_sep(sep_protein, sep_column)",
        # every PSM line has at least as many fields as the header (>= 1 protein)
        "all(trig(len(split(strip(%s[i]), sep_column)) >= len(split(%s, sep_column)), %s[i]) "
        "for i in range(1, len(%s)))" % (_L, _H, _L, _L),
    ],
    ensures=[
        # what was in the output before is untouched; header first
        "all(f_out[i] == old(f_out)[i] for i in range(len(old(f_out))))",
        "f_out[len(old(f_out))] == %s + '\\n'" % _H,
        # one line per PSM, in the original order; an optional DefaultDirection line is dropped
        "len(f_out) == len(old(f_out)) + 1 + len(%s) - %s" % (_L, _OFF),
        "all(f_out[len(old(f_out)) + 1 + j] == tsv_of(strip(%s[%s + j]), pin_header(%s, sep_column)[1], "
        "pin_header(%s, sep_column)[0], sep_column, sep_protein) + '\\n' for j in range(len(%s) - %s))"
        % (_L, _OFF, _H, _H, _L, _OFF),
    ],
    loops={0: Loop(invariant=[
        "len(f_out) == len(old(f_out)) + 1 + (2 + _k0) - %s" % _OFF,
        "all(f_out[i] == old(f_out)[i] for i in range(len(old(f_out))))",
        "f_out[len(old(f_out))] == %s + '\\n'" % _H,
        "all(f_out[len(old(f_out)) + 1 + j] == tsv_of(strip(%s[%s + j]), pin_header(%s, sep_column)[1], "
        "pin_header(%s, sep_column)[0], sep_column, sep_protein) + '\\n' for j in range(2 + _k0 - %s))"
        % (_L, _OFF, _H, _H, _OFF),
        "n_col == pin_header(%s, sep_column)[0]" % _H,
        "idx_protein_col == pin_header(%s, sep_column)[1]" % _H,
        "n_col == len(split(%s, sep_column))" % _H,
        "0 <= idx_protein_col < n_col",
    ])},
    uses=["mokapot.parsers.pin_to_tsv.parse_pin_header_columns",
          "mokapot.parsers.pin_to_tsv.convert_line_pin_to_tsv"],
)

CONTRACTS = [parse_header, convert_line, is_valid, to_valid]
BOUNDED = {"module": "harness.c19"}

MUTANTS = [
    {"name": "prot-end-off-by-one", "target": "mokapot.parsers.pin_to_tsv.convert_line_pin_to_tsv",
     "find": "idx_prot_end = idx_protein_col + n_proteins + 1", "replace": "idx_prot_end = idx_protein_col + n_proteins"},
    {"name": "wrong-joiner", "target": "mokapot.parsers.pin_to_tsv.convert_line_pin_to_tsv",
     "find": "proteins: str = sep_protein.join(", "replace": "proteins: str = sep_column.join("},
    {"name": "tail-dropped", "target": "mokapot.parsers.pin_to_tsv.convert_line_pin_to_tsv",
     "find": "+ [proteins] + elements[idx_prot_end:]", "replace": "+ [proteins]"},
    {"name": "valid-ignores-line2-width", "target": "mokapot.parsers.pin_to_tsv.is_valid_tsv",
     "find": "    n_col = len(line_2.split(sep_column))\n    if n_col != n_col_header:\n        return False\n",
     "replace": "    n_col = len(line_2.split(sep_column))\n"},
    {"name": "valid-accepts-defaultdirection", "target": "mokapot.parsers.pin_to_tsv.is_valid_tsv",
     "find": "    if line_2.startswith(\"DefaultDirection\"):\n        return False\n", "replace": ""},
    {"name": "second-line-dropped", "target": "mokapot.parsers.pin_to_tsv.pin_to_valid_tsv",
     "find": "    if not second_line.startswith(\"DefaultDirection\"):", "replace": "    if False:"},
    {"name": "header-not-written", "target": "mokapot.parsers.pin_to_tsv.pin_to_valid_tsv",
     "find": "    f_out.write(header + \"\\n\")\n", "replace": ""},
    {"name": "index-last-occurrence", "target": "mokapot.parsers.pin_to_tsv.parse_pin_header_columns",
     "find": "n_col = len(columns)", "replace": "n_col = len(columns) + 1"},
]
