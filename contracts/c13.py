"""C13 - chunked reading equals whole reading; writers lose and reorder nothing (DESIGN.md 4.C13)."""
from pyvc.spec import Contract, Loop, Lemma, Ghost

PROPERTY = "C13"
LEVEL = "other"
EXPLANATION = (
    "Deductive: BufferedWriter (_buffer_slice, _write_buffer flush loop, append_data, finalize) against the ghost "
    "`sink` of the wrapped writer: sink ++ buffer always equals everything appended so far, in order, for every "
    "buffer size; DataFrameReader / ParquetFileReader chunk arithmetic (chunk k = rows [k*c, ...), index = global "
    "row number).  Bounded stand-in: the real readers/writers on the installed pandas/pyarrow.")
ASSUMPTIONS = [
    "DataFrames, lists of dicts and record arrays are one `Seq Row` (value semantics, no aliasing)",
    "the wrapped writer's append_data appends rows in order (ghost sink); pd.concat / DataFrame() / iloc as in "
    "pyvc/libio.py",
    "BufferedWriter with buffer_type Records (np.append on a recarray) is covered by the bounded run only",
]

_TT = {"TableType.DataFrame": ("int", 0), "TableType.Dicts": ("int", 1), "TableType.Records": ("int", 2)}
_FIELDS = {"buffer": "opt[list[Row]]", "buffer_size": "int", "buffer_type": "int"}

buffer_slice = Contract(
    target="mokapot.tabular_data.BufferedWriter._buffer_slice",
    params={"start": "int", "end": "opt[int]", "as_dataframe": "bool"},
    defaults={"start": "0", "end": "None", "as_dataframe": "False"},
    self_fields=_FIELDS,
    consts=_TT,
    tags={"slice": {"pd.DataFrame": "self.buffer_type == TableType.DataFrame"}},
    returns="list[Row]",
    requires=["self.buffer is not None", "0 <= start", "implies(end is not None, 0 <= end)"],
    ensures=[
        # rows [start, end) of the buffer, clamped to its length
        "len(result) == max(0, min(len(self.buffer), len(self.buffer) if end is None else end) - "
        "min(start, len(self.buffer)))",
        "all(result[i] == self.buffer[start + i] for i in range(len(result)))",
    ],
)

_ALL = "(self.writer.sink + (self.buffer if self.buffer is not None else []))"

write_buffer = Contract(
    target="mokapot.tabular_data.BufferedWriter._write_buffer",
    params={"force": "bool"},
    defaults={"force": "False"},
    self_fields=dict(_FIELDS, **{"writer": "Writer", "writer.sink": "list[Row]"}),
    modifies=["self.buffer", "self.writer.sink"],
    consts=_TT,
    requires=["self.buffer_size >= 1"],
    ensures=[
        # nothing lost, nothing reordered: what the writer holds followed by what is still buffered is unchanged
        "%s == old(%s)" % (_ALL, _ALL),
        # the writer only ever grows
        "len(self.writer.sink) >= len(old(self.writer.sink))",
        # after a flush less than one full batch stays behind; a forced flush empties the buffer
        "implies(self.buffer is not None, len(self.buffer) < self.buffer_size)",
        "implies(force, self.buffer is None or len(self.buffer) == 0)",
    ],
    loops={0: Loop(invariant=[
        "self.buffer is not None",
        "self.writer.sink + self.buffer == old(%s)" % _ALL,
        "len(self.writer.sink) >= len(old(self.writer.sink))",
    ], decreases="len(self.buffer)")},
    uses=["mokapot.tabular_data.BufferedWriter._buffer_slice"],
)

append_data = Contract(
    target="mokapot.tabular_data.BufferedWriter.append_data",
    params={"data": "list[Row]"},
    self_fields=dict(_FIELDS, **{"writer": "Writer", "writer.sink": "list[Row]"}),
    modifies=["self.buffer", "self.writer.sink"],
    consts=_TT,
    tags={"data": {"pd.DataFrame": "self.buffer_type == TableType.DataFrame", "dict": "False"}},
    requires=["self.buffer_size >= 1",
              "self.buffer_type == TableType.DataFrame or self.buffer_type == TableType.Dicts"],
    ensures=[
        "%s == old(%s) + data" % (_ALL, _ALL),
        "len(self.writer.sink) >= len(old(self.writer.sink))",
    ],
    # the Records branch is outside the precondition (bounded-only); its two numpy statements are havocked
    abstract_ok=["self.buffer = np.recarray(", "self.buffer = np.append(self.buffer, data)"],
    uses=["mokapot.tabular_data.BufferedWriter._write_buffer"],
)

finalize = Contract(
    target="mokapot.tabular_data.BufferedWriter.finalize",
    params={},
    self_fields=dict(_FIELDS, **{"writer": "Writer", "writer.sink": "list[Row]"}),
    modifies=["self.buffer", "self.writer.sink"],
    consts=_TT,
    requires=["self.buffer_size >= 1"],
    ensures=[
        # everything that was appended has reached the wrapped writer, in order
        "self.writer.sink == old(%s)" % _ALL,
    ],
    abstract_ok=["self.writer.finalize()"],
    uses=["mokapot.tabular_data.BufferedWriter._write_buffer"],
)

# ---- readers: chunk arithmetic --------------------------------------------------------------------------------
_DFN = "len(self.df)"
_ROWK = "(self.df[k * chunk_size + i] if columns is None else row_proj(self.df[k * chunk_size + i], columns))"

frame_reader_chunks = Contract(
    target="mokapot.tabular_data.DataFrameReader.get_chunked_data_iterator",
    params={"chunk_size": "int", "columns": "opt[list[str]]"},
    defaults={"columns": "None"},
    self_fields={"df": "list[Row]"},
    yields="list[Row]",
    requires=["chunk_size >= 1"],
    ensures=[
        # as many chunks as needed, each of the right size, chunk k = rows [k*c, k*c + len) in order, with the
        # requested columns: concatenating the chunks is the whole table
        "len(yielded) == (%s + chunk_size - 1) // chunk_size" % _DFN,
        "all(len(yielded[k]) == min(chunk_size, %s - k * chunk_size) for k in range(len(yielded)))" % _DFN,
        "all(yielded[k][i] == %s for k in range(len(yielded)) for i in range(len(yielded[k])))" % _ROWK,
    ],
    loops={0: Loop(invariant=[
        "len(yielded) == _k0",
        "all(len(yielded[k]) == min(chunk_size, %s - k * chunk_size) for k in range(_k0))" % _DFN,
        "all(yielded[k][i] == %s for k in range(_k0) for i in range(len(yielded[k])))" % _ROWK,
    ])},
)

PF_ROWS = Ghost("pf_rows", "PFile -> list[Row]")
PF_OF = Ghost("pf_of", "FPath -> PFile")
_PN = "len(pf_rows(pf_of(self.file_name)))"
_PROW = ("(pf_rows(pf_of(self.file_name))[k * chunk_size + j] if columns is None else "
         "row_proj(pf_rows(pf_of(self.file_name))[k * chunk_size + j], columns))")

LIB_CONTRACTS = [
    Contract(target="lib:PFile.iter_batches", params={"self": "PFile", "batch_size": "int", "columns": "opt[list[str]]"},
             returns="list[list[Row]]", skip_body=True, global_ghosts=[PF_ROWS],
             requires=["batch_size >= 1"],
             ensures=[
                 "len(result) == (len(pf_rows(self)) + batch_size - 1) // batch_size",
                 "all(len(result[k]) == min(batch_size, len(pf_rows(self)) - k * batch_size) "
                 "for k in range(len(result)))",
                 "all(result[k][j] == (pf_rows(self)[k * batch_size + j] if columns is None else "
                 "row_proj(pf_rows(self)[k * batch_size + j], columns)) "
                 "for k in range(len(result)) for j in range(len(result[k])))",
             ],
             notes="pyarrow ParquetFile.iter_batches(n, columns): consecutive blocks of exactly n rows except the "
                   "last, across row groups (validated for the installed pyarrow by the bounded run)"),
]

parquet_file = Contract(
    target="pq.ParquetFile", params={"path": "FPath"}, returns="PFile", skip_body=True,
    global_ghosts=[PF_OF], ensures=["result == pf_of(path)"],
    notes="pq.ParquetFile(path): a handle on the rows of the file")

parquet_reader_chunks = Contract(
    target="mokapot.tabular_data.ParquetFileReader.get_chunked_data_iterator",
    params={"chunk_size": "int", "columns": "opt[list[str]]"},
    defaults={"columns": "None"},
    self_fields={"file_name": "FPath"},
    yields="tuple[list[Row],nd[int]]",          # a yielded frame = (rows, index)
    global_ghosts=[PF_ROWS, PF_OF],
    requires=["chunk_size >= 1"],
    ensures=[
        "len(yielded) == (%s + chunk_size - 1) // chunk_size" % _PN,
        "all(len(yielded[k][0]) == min(chunk_size, %s - k * chunk_size) for k in range(len(yielded)))" % _PN,
        "all(len(yielded[k][1]) == len(yielded[k][0]) for k in range(len(yielded)))",
        # chunk k holds rows [k*c, ...) of the file and its index is the GLOBAL row number (continues across chunks)
        "all(yielded[k][0][j] == %s for k in range(len(yielded)) for j in range(len(yielded[k][0])))" % _PROW,
        "all(yielded[k][1][j] == k * chunk_size + j for k in range(len(yielded)) for j in range(len(yielded[k][1])))",
    ],
    loops={0: Loop(invariant=[
        "len(yielded) == _k0",
        "all(len(yielded[k][0]) == min(chunk_size, %s - k * chunk_size) for k in range(_k0))" % _PN,
        "all(len(yielded[k][1]) == len(yielded[k][0]) for k in range(_k0))",
        "all(yielded[k][0][j] == %s for k in range(_k0) for j in range(len(yielded[k][0])))" % _PROW,
        "all(yielded[k][1][j] == k * chunk_size + j for k in range(_k0) for j in range(len(yielded[k][1])))",
    ])},
    uses=["pq.ParquetFile=pq.ParquetFile"],
)

CONTRACTS = [buffer_slice, write_buffer, append_data, finalize, frame_reader_chunks, parquet_reader_chunks,
             parquet_file]
BOUNDED = {"module": "harness.c13"}

MUTANTS = [
    {"name": "flush-drops-a-row", "target": "mokapot.tabular_data.BufferedWriter._write_buffer",
     "find": "            self.buffer = self._buffer_slice(\n                start=self.buffer_size,\n            )",
     "replace": "            self.buffer = self._buffer_slice(\n                start=self.buffer_size + 1,\n            )"},
    {"name": "flush-duplicates-a-row", "target": "mokapot.tabular_data.BufferedWriter._write_buffer",
     "find": "                self._buffer_slice(end=self.buffer_size, as_dataframe=True)",
     "replace": "                self._buffer_slice(end=self.buffer_size + 1, as_dataframe=True)"},
    {"name": "forced-flush-forgets-rest", "target": "mokapot.tabular_data.BufferedWriter._write_buffer",
     "find": "            self.writer.append_data(self._buffer_slice(as_dataframe=True))\n            self.buffer = None",
     "replace": "            self.buffer = None"},
    {"name": "finalize-not-forced", "target": "mokapot.tabular_data.BufferedWriter.finalize",
     "find": "        self._write_buffer(force=True)", "replace": "        self._write_buffer(force=False)"},
    {"name": "append-prepends", "target": "mokapot.tabular_data.BufferedWriter.append_data",
     "find": "                    [self.buffer, data], axis=0, ignore_index=True",
     "replace": "                    [data, self.buffer], axis=0, ignore_index=True"},
    {"name": "append-overwrites-dict-buffer", "target": "mokapot.tabular_data.BufferedWriter.append_data",
     "find": "            self.buffer += [dict(row) for row in data]", "replace": "            self.buffer = [dict(row) for row in data]"},
    {"name": "parquet-index-offset-by-batch-length", "target": "mokapot.tabular_data.ParquetFileReader.get_chunked_data_iterator",
     "find": "df.index = df.index + i * chunk_size", "replace": "df.index = df.index + i * len(df)"},
    {"name": "parquet-index-not-shifted", "target": "mokapot.tabular_data.ParquetFileReader.get_chunked_data_iterator",
     "find": "            df.index = df.index + i * chunk_size\n", "replace": ""},
    {"name": "parquet-columns-dropped", "target": "mokapot.tabular_data.ParquetFileReader.get_chunked_data_iterator",
     "find": "pf.iter_batches(chunk_size, columns=columns)", "replace": "pf.iter_batches(chunk_size, columns=None)"},
    {"name": "frame-chunks-overlap", "target": "mokapot.tabular_data.DataFrameReader.get_chunked_data_iterator",
     "find": "chunk = self.df.iloc[pos : pos + chunk_size]", "replace": "chunk = self.df.iloc[pos : pos + chunk_size + 1]"},
    {"name": "frame-chunks-skip-a-row", "target": "mokapot.tabular_data.DataFrameReader.get_chunked_data_iterator",
     "find": "for pos in range(0, len(self.df), chunk_size):", "replace": "for pos in range(0, len(self.df), chunk_size + 1):"},
    {"name": "frame-columns-ignored", "target": "mokapot.tabular_data.DataFrameReader.get_chunked_data_iterator",
     "find": "yield chunk if columns is None else chunk[columns]", "replace": "yield chunk"},
    {"name": "slice-ignores-start", "target": "mokapot.tabular_data.BufferedWriter._buffer_slice",
     "find": "            slice = self.buffer[start:end]", "replace": "            slice = self.buffer[0:end]"},
]
