"""C15 - contracts under construction; the bounded stand-in is wired so that seeded changes can be evaluated."""
from pyvc.spec import Contract, Loop, Lemma, Ghost

PROPERTY = "C15"
LEVEL = "other"
EXPLANATION = "bounded stand-in only so far"
ASSUMPTIONS = []
CONTRACTS = []
BOUNDED = {"module": "harness.c15"}
