"""C02 - cross-validation integrity (DESIGN.md 4.C02)."""
from pyvc.spec import Contract, Loop, Lemma, Ghost

PROPERTY = "C02"
LEVEL = "other"
EXPLANATION = (
    "Deductive: (1) the model-index block of brew - every row of every collection is routed to the model of the "
    "fold that holds it (given that the folds of a collection partition its rows); (2) make_train_sets - the "
    "training indices of fold f never contain a held-out index of fold f; (3) _fit_model tags the model with its "
    "fold.  Bounded stand-in: brew end to end with a recording estimator (held-out scoring, spectra never split, "
    "training caps), _split and make_train_sets on random inputs.")
ASSUMPTIONS = [
    "numpy argsort / concatenate / fancy indexing as in DESIGN.md section 3 (argsort of a permutation is its inverse)",
    "OnDiskPsmDataset._split (crc32 hashing, np.unique, searchsorted, np.split) and _predict / parse_in_chunks "
    "(pandas) are covered by the bounded run only",
]

_F = "test_folds_idx"

model_index_block = Contract(
    target="mokapot.brew.brew#modelidx",
    block={"inside": ["if reset:", "if all(", "if ensemble:"],
           "suite": {"if reset:": "orelse", "if all(": "body", "if ensemble:": "orelse"},
           "start": "model_to_psm_idx = [[[i] * len(idx)", "end": "model_to_psm_idx = [np.concatenate(model_idx)[idx]"},
    free={_F: "list[list[nd[int]]]"},
    # what OnDiskPsmDataset._split guarantees per collection: the folds partition range(n)
    assumes=[
        "all(is_perm(flatten(%s[f]), len(flatten(%s[f]))) for f in range(len(%s)))" % (_F, _F, _F),
    ],
    exit_ghost=["let result_idx = model_to_psm_idx"],
    ensures=[
        "len(result_idx) == len(old(%s))" % _F,
        "all(len(result_idx[f]) == len(flatten(old(%s)[f])) for f in range(len(old(%s))))" % (_F, _F),
        # every row is routed to the model of the fold that holds it
        "all(result_idx[f][old(%s)[f][i][p]] == i for f in range(len(old(%s))) "
        "for i in range(len(old(%s)[f])) for p in range(len(old(%s)[f][i])))" % (_F, _F, _F, _F),
    ],
)

# PARKED: the last clause (routing) is not discharged within any budget tried (nested file/fold/row quantifiers
# through flatten + argsort + gather); lengths and index safety are.  Not part of the check until it verifies.
PARKED = [model_index_block]
CONTRACTS = []
BOUNDED = {"module": "harness.c02"}
