"""C02 - cross-validation integrity (DESIGN.md 4.C02)."""
from pyvc.spec import Contract, Loop, Lemma, Ghost

PROPERTY = "C02"
LEVEL = "other"
EXPLANATION = (
    "Deductive: (1) the model-index block of brew - every row of every collection is routed to the model of the "
    "fold that holds it (given that the folds of a collection partition its rows); (2) make_train_sets - the "
    "training indices of fold f never contain a held-out index of fold f; (3) _fit_model tags the model with its "
    "fold.  Bounded stand-in: brew end to end with a recording estimator (held-out scoring, spectra never split, "
    "training caps), _split and make_train_sets on random inputs.")
ASSUMPTIONS = [
    "numpy argsort / concatenate / fancy indexing as in DESIGN.md section 3 (argsort of a permutation is its inverse; "
    "element p of block i of a concatenation stands at offset(i) + p, inside the concatenation)",
    "brew#modelidx assumes that the folds of every collection are a permutation of its row numbers (what "
    "OnDiskPsmDataset._split is to deliver; bounded-only)",
    "OnDiskPsmDataset._split (crc32 hashing, np.unique, searchsorted, np.split) and _predict / parse_in_chunks "
    "(pandas) are covered by the bounded run only",
]

_F = "test_folds_idx"

model_index_block = Contract(
    target="mokapot.brew.brew#modelidx",
    block={"inside": ["if reset:", "if all(", "if ensemble:"],
           "suite": {"if reset:": "orelse", "if all(": "body", "if ensemble:": "orelse"},
           "start": "model_to_psm_idx = [[[i] * len(idx)", "end": "model_to_psm_idx = [np.concatenate(model_idx)[idx]"},
    free={_F: "list[list[nd[int]]]"},
    # what OnDiskPsmDataset._split guarantees per collection: the folds partition range(n)
    assumes=[
        "all(is_perm(flatten(%s[f]), len(flatten(%s[f]))) for f in range(len(%s)))" % (_F, _F, _F),
    ],
    lemmas=[
        # block lists of the same shape have the same offsets (proved by induction here, not taken from the library)
        Lemma("off_same", {"A": "list[list[int]]", "B": "list[list[int]]", "k": "int"},
              requires=["len(A) == len(B)", "all(len(A[j]) == len(B[j]) for j in range(len(A)))",
                        "0 <= k <= len(A)"],
              ensures=["flat_off(A, k) == flat_off(B, k)"],
              induct="k", auto=True, triggers=[["flat_off(A, k)", "flat_off(B, k)"]]),
    ],
    ghosts=[Ghost("FPOS", "list[list[int]], int, int -> int", axioms=[
        # position of element p of block i in the concatenation of the blocks
        "forall(lambda xs, i, p: FPOS(xs, i, p) == flat_off(xs, i) + p, "
        "types={'xs': 'list[list[int]]', 'i': 'int', 'p': 'int'}, trigger=lambda xs, i, p: FPOS(xs, i, p))"])],
    ghost_at=[
        # stepping stones (each a proof obligation of its own)
        {"before": "model_to_psm_idx = [[[i] * len(idx)", "do": [
            # (0) element p of fold i of file f stands at position FPOS in the concatenation of the folds
            "assert forall(lambda f, i, p: implies(0 <= f < len(%s) and 0 <= i < len(%s[f]) and "
            "0 <= p < len(%s[f][i]), flatten(%s[f])[FPOS(%s[f], i, p)] == %s[f][i][p]), "
            "trigger=lambda f, i, p: %s[f][i][p])" % (_F, _F, _F, _F, _F, _F, _F),
        ]},
        {"after": "model_to_psm_idx = [[[i] * len(idx)", "do": [
            "let blocks0 = model_to_psm_idx",
            # (1) the blocks of model numbers have the shape of the folds and hold the fold number
            "assert all(len(blocks0[f]) == len(%s[f]) and all(len(blocks0[f][i]) == len(%s[f][i]) and "
            "all(blocks0[f][i][p] == i for p in range(len(%s[f][i]))) for i in range(len(%s[f]))) "
            "for f in range(len(%s)))" % (_F, _F, _F, _F, _F),
            # (2) hence the same offsets
            "assert all(all(flat_off(blocks0[f], i) == flat_off(%s[f], i) for i in range(len(%s[f]) + 1)) "
            "for f in range(len(%s)))" % (_F, _F, _F),
            # (3) element view of the concatenated blocks
            "assert forall(lambda f, i, p: implies(0 <= f < len(blocks0) and 0 <= i < len(blocks0[f]) and "
            "0 <= p < len(blocks0[f][i]), flatten(blocks0[f])[FPOS(blocks0[f], i, p)] == blocks0[f][i][p]), "
            "trigger=lambda f, i, p: FPOS(blocks0[f], i, p))",
            # (4) the concatenated blocks hold fold number i at the positions of fold i
            "assert forall(lambda f, i, p: implies(0 <= f < len(%s) and 0 <= i < len(%s[f]) and "
            "0 <= p < len(%s[f][i]), FPOS(blocks0[f], i, p) == FPOS(%s[f], i, p) and "
            "flatten(blocks0[f])[FPOS(%s[f], i, p)] == i), "
            "trigger=lambda f, i, p: FPOS(%s[f], i, p))" % (_F, _F, _F, _F, _F, _F),
        ]},
        # (5) argsort of a permutation is its inverse: the position of row flatten(folds)[q] is q
        {"after": "original_order_idx = [", "do": [
            "assert all(len(original_order_idx[f]) == len(flatten(%s[f])) and "
            "all(original_order_idx[f][flatten(%s[f])[q]] == q for q in range(len(flatten(%s[f])))) "
            "for f in range(len(%s)))" % (_F, _F, _F, _F),
            # (6) so the row F[f][i][p] sits at position FPOS of the sorted order
            "assert forall(lambda f, i, p: implies(0 <= f < len(%s) and 0 <= i < len(%s[f]) and "
            "0 <= p < len(%s[f][i]), original_order_idx[f][%s[f][i][p]] == FPOS(%s[f], i, p)), "
            "trigger=lambda f, i, p: %s[f][i][p])" % (_F, _F, _F, _F, _F, _F),
            "let ooi0 = original_order_idx",
        ]},
        # (7) the result gathers the concatenated blocks along that order
        {"after": "model_to_psm_idx = [np.concatenate(model_idx)[idx]", "do": [
            "assert forall(lambda f, r: implies(0 <= f < len(model_to_psm_idx) and 0 <= r < len(model_to_psm_idx[f]), "
            "model_to_psm_idx[f][r] == flatten(blocks0[f])[ooi0[f][r]]), "
            "trigger=lambda f, r: model_to_psm_idx[f][r])",
        ]},
    ],
    exit_ghost=["let result_idx = model_to_psm_idx"],
    ensures=[
        "len(result_idx) == len(old(%s))" % _F,
        "all(len(result_idx[f]) == len(flatten(old(%s)[f])) for f in range(len(old(%s))))" % (_F, _F),
        # every row is routed to the model of the fold that holds it
        "all(result_idx[f][old(%s)[f][i][p]] == i for f in range(len(old(%s))) "
        "for i in range(len(old(%s)[f])) for p in range(len(old(%s)[f][i])))" % (_F, _F, _F, _F),
    ],
)

LIB_CONTRACTS = [
    Contract(target="lib:Rng.choice", params={"self": "Rng", "a": "list[int]", "size": "int", "replace": "bool"},
             returns="nd[int]", modifies=["self"], skip_body=True,
             requires=["not replace"],
             raises={"ValueError": "size > len(a)"},
             ensures=[
                 "len(result) == size",
                 # an injective selection from the population
                 "all(result[p] in a for p in range(len(result)))",
             ],
             notes="numpy Generator.choice(a, size, replace=False): size distinct positions of a; ValueError if the "
                   "population is smaller than size"),
]

_NF = "len(data_size)"
_OK = lambda seq, f, j: ("all(0 <= %s[p] < data_size[%s] and all(%s[p] != test_idx[%s][%s][q] "
                         "for q in range(len(test_idx[%s][%s]))) for p in range(len(%s)))"
                         % (seq, j, seq, j, f, j, f, seq))

make_train_sets = Contract(
    target="mokapot.brew.make_train_sets",
    params={"test_idx": "list[list[nd[int]]]", "subset_max_train": "opt[int]", "data_size": "list[int]",
            "rng": "Rng"},
    yields="list[list[int]]",
    locals={"train_idx": "list[list[int]]", "subset_max_train_per_file": "list[int]"},
    consts={"chunk_range": ("int", 5000000)},
    requires=[
        "len(test_idx) == len(data_size)", "len(data_size) >= 1",
        # every collection has the same number of folds
        "all(len(test_idx[j]) == len(test_idx[0]) for j in range(len(test_idx)))",
        "all(data_size[j] >= 0 for j in range(len(data_size)))",
        "implies(subset_max_train is not None, subset_max_train >= 0)",
    ],
    # no exception is allowed: since fix 4df4b43 a file is only sub-sampled when its cap is smaller than its pool,
    # so Generator.choice(..., replace=False) can never be asked for more rows than the population holds
    ensures=[
        "len(yielded) == len(test_idx[0])",
        "all(len(yielded[f]) == len(data_size) for f in range(len(yielded)))",
        # the training indices of fold f, file j are rows of file j that are NOT in the held-out fold f
        "all(%s for f in range(len(yielded)) for j in range(len(data_size)))" % _OK("yielded[f][j]", "f", "j"),
    ],
    loops={
        0: Loop(invariant=[
            "len(yielded) == _k0",
            "all(len(yielded[f]) == len(data_size) for f in range(_k0))",
            "all(%s for f in range(_k0) for j in range(len(data_size)))" % _OK("yielded[f][j]", "f", "j"),
            "implies(subset_max_train is None, len(subset_max_train_per_file) == 0)",
            "implies(subset_max_train is not None, len(subset_max_train_per_file) == len(data_size))",
        ]),
        1: Loop(invariant=[
            "len(train_idx) == len(data_size)",
            "all(%s for j in range(_k1))" % _OK("train_idx[j]", "_k0", "j"),
            "all(len(train_idx[j]) == 0 for j in range(_k1, len(data_size)))",
        ]),
        2: Loop(invariant=[
            "len(train_idx) == len(data_size)", "0 <= k <= ds", "ds == data_size[file_idx]",
            "all(%s for j in range(_k1))" % _OK("train_idx[j]", "_k0", "j"),
            "all(len(train_idx[j]) == 0 for j in range(_k1 + 1, len(data_size)))",
            "all(0 <= train_idx[file_idx][p] < k and all(train_idx[file_idx][p] != idx[q] for q in range(len(idx))) "
            "for p in range(len(train_idx[file_idx])))",
        ]),
        3: Loop(invariant=[
            "len(train_idx) == len(data_size)",
            "all(%s for j in range(len(data_size)))" % _OK("train_idx[j]", "_k0", "j"),
        ]),
    },
    abstract_ok=["LOGGER.info("],
    replay="harness.c02:make_train_sets_adapter",
)

fit_model = Contract(
    target="mokapot.brew._fit_model",
    params={"train_set": "Frame", "psms": "list[Psms]", "model": "ModelObj", "fold": "int"},
    returns="tuple[ModelObj,bool]",
    locals={"train_set": "Frame", "reset": "bool"},
    global_ghosts=[Ghost("model_fold", "ModelObj -> int")],
    raises={"RuntimeError": "True"},
    exit_ghost=["let tag = model.fold"],
    ensures=[
        # the returned model is the one that was passed in, tagged with its (1-based) fold number: this tag is what
        # brew sorts the fitted models by, so that models[i] is the model of test fold i
        "result[0] == model", "tag == fold + 1",
    ],
    abstract_ok=["train_set = _create_psms(", "try:", "LOGGER."],
)

CONTRACTS = [make_train_sets, fit_model, model_index_block]
BOUNDED = {"module": "harness.c02"}

MUTANTS = [
    {"name": "order-of-another-file", "target": "mokapot.brew.brew#modelidx",
     "find": "for model_idx, idx in zip(model_to_psm_idx, original_order_idx)",
     "replace": "for model_idx, idx in zip(model_to_psm_idx, original_order_idx[::-1])"},
    {"name": "model-index-starts-at-one", "target": "mokapot.brew.brew#modelidx",
     "find": "[[i] * len(idx) for i, idx in enumerate(test_fold_idx)]",
     "replace": "[[i] * len(idx) for i, idx in enumerate(test_fold_idx, 1)]"},
    {"name": "permutation-instead-of-its-inverse", "target": "mokapot.brew.brew#modelidx",
     "find": "np.argsort(utils.flatten(test_fold_idx)).tolist()",
     "replace": "np.asarray(utils.flatten(test_fold_idx)).tolist()"},
    {"name": "cap-compared-with-total-size", "target": "mokapot.brew.make_train_sets",
     "find": "if current_subset_max_train < len(train_idx[i]):",
     "replace": "if current_subset_max_train < train_idx_size:"},
    {"name": "test-fold-not-removed", "target": "mokapot.brew.make_train_sets",
     "find": "            train_idx[file_idx] += list(set(range(k, ds)) - set(idx))",
     "replace": "            train_idx[file_idx] += list(set(range(k, ds)))"},
    {"name": "cap-samples-from-another-file", "target": "mokapot.brew.make_train_sets",
     "find": "                        train_idx[i], current_subset_max_train, replace=False",
     "replace": "                        train_idx[0], current_subset_max_train, replace=False"},
    {"name": "other-fold-removed", "target": "mokapot.brew.make_train_sets",
     "find": "    for fold_idx in zip(*test_idx):", "replace": "    for fold_idx in zip(*test_idx[::-1]):"},
    {"name": "range-beyond-file", "target": "mokapot.brew.make_train_sets",
     "find": "            train_idx[file_idx] += list(set(range(k, ds)) - set(idx))",
     "replace": "            train_idx[file_idx] += list(set(range(k, ds + 1)) - set(idx))"},
    {"name": "fold-tag-zero-based", "target": "mokapot.brew._fit_model",
     "find": "    model.fold = fold + 1", "replace": "    model.fold = fold"},
]
