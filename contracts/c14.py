"""C14 - k-way merge returns every row once, globally sorted by score (DESIGN.md 4.C14)."""
from pyvc.spec import Contract, Loop, Lemma, Ghost

PROPERTY = "C14"
LEVEL = "other"
EXPLANATION = (
    "Deductive: get_next_row - returns a current row with maximal score, advances exactly that stream (or removes "
    "it from both dictionaries when exhausted), leaves every other entry unchanged and re-establishes the coupling "
    "between the dictionaries and the stream cursors; merge_sort loop (block contract over the ghost cursors) - "
    "every yielded row is the row a stream stood on, the output is non-increasing in score.  Bounded stand-in: "
    "both mergers on files, all tie structures, chunk sizes, rejection of unsorted inputs.")
ASSUMPTIONS = [
    "a row iterator is a handle on a fixed row sequence with a ghost cursor (iterator protocol); distinct "
    "dictionary keys hold distinct iterators",
    "float(row[column]) is a function of the row (score_of)",
    "the dict comprehensions of merge_sort that open the readers and fetch each stream's first row are not "
    "modelled (they establish the coupling the loop contract assumes); MergedTabularDataReader is bounded-only",
]

_IT, _CUR, _GC = "row_iterator_dict", "current_row_dict", "ghost_cursor"


def coupling(it, cur, gc):
    return [
        "forall(lambda k: iff(k in %s, k in %s), trigger=lambda k: k in %s)" % (cur, it, cur),
        "forall(lambda a, b: implies(a in %s and b in %s and a != b, %s[a] != %s[b]), "
        "trigger=lambda a, b: (%s[a], %s[b]))" % (it, it, it, it, it, it),
        "forall(lambda k: implies(k in %s, 1 <= %s[%s[k]] <= len(stream_seq(%s[k])) and "
        "%s[k] == stream_seq(%s[k])[%s[%s[k]] - 1]), trigger=lambda k: %s[k])"
        % (it, gc, it, it, cur, it, gc, it, it),
    ]


_SC = lambda r: "score_of(%s, score_column)" % r

get_next_row = Contract(
    target="mokapot.utils.get_next_row",
    params={_IT: "dict[int,Stream]", _CUR: "dict[int,Row]", "score_column": "str", _GC: "map[Stream,int]"},
    modifies=[_IT, _CUR, _GC],
    returns="opt[Row]",
    locals={"max_key": "opt[int]", "max_row": "opt[Row]", "max_score": "opt[real]"},
    requires=["len(keys(%s)) >= 1" % _CUR] + coupling(_IT, _CUR, _GC),
    exit_ghost=["let gK = max_key", "let gH = old(%s)[max_key]" % _IT],
    ghost_returns={"gK": "int", "gH": "Stream"},
    ensures=[
        "result is not None",
        # the returned row is the current row of some stream gK and no current row scores higher
        "gK in old(%s) and result == old(%s)[gK]" % (_CUR, _CUR),
        "gK in old(%s) and gH == old(%s)[gK]" % (_IT, _IT),
        "forall(lambda k: implies(k in old(%s), %s <= %s), trigger=lambda k: old(%s)[k])"
        % (_CUR, _SC("old(%s)[k]" % _CUR), _SC("result"), _CUR),
        # exactly that stream is advanced by one row - or removed from both dictionaries when it is exhausted
        "implies(old(%s)[gH] < len(stream_seq(gH)), %s[gH] == old(%s)[gH] + 1 and gK in %s and gK in %s and "
        "%s[gK] == gH and %s[gK] == stream_seq(gH)[old(%s)[gH]])" % (_GC, _GC, _GC, _CUR, _IT, _IT, _CUR, _GC),
        "implies(old(%s)[gH] >= len(stream_seq(gH)), %s[gH] == old(%s)[gH] and not (gK in %s) and not (gK in %s))"
        % (_GC, _GC, _GC, _CUR, _IT),
        # everything else is untouched
        "forall(lambda k: implies(k != gK, iff(k in %s, k in old(%s)) and iff(k in %s, k in old(%s)) and "
        "%s[k] == old(%s)[k] and %s[k] == old(%s)[k]), trigger=lambda k: %s[k])"
        % (_CUR, _CUR, _IT, _IT, _CUR, _CUR, _IT, _IT, _CUR),
        "forall(lambda h: implies(h != gH, %s[h] == old(%s)[h]), types={'h': 'Stream'}, trigger=lambda h: %s[h])"
        % (_GC, _GC, _GC),
    ] + coupling(_IT, _CUR, _GC),
    loops={0: Loop(invariant=[
        "iff(max_score is None, _k0 == 0)",
        "iff(max_key is None, _k0 == 0)", "iff(max_row is None, _k0 == 0)",
        "implies(_k0 > 0, max_key in %s and max_row == %s[max_key] and max_score == %s)"
        % (_CUR, _CUR, _SC("max_row")),
        "all(%s <= max_score for j in range(_k0))" % _SC("%s[keys(%s)[j]]" % (_CUR, _CUR)),
    ])},
    replay="harness.c14:get_next_row_adapter",
)

_Y = "yielded"
_T = "len(yielded)"
_LOG = [
    # emission log: the t-th yielded row is row ghost_pos[t] of stream ghost_src[t] ...
    "forall(lambda t: implies(0 <= t < %s, yielded[t] == stream_seq(ghost_src[t])[ghost_pos[t]] and "
    "0 <= ghost_pos[t] < ghost_done[ghost_src[t]] and ghost_when[ghost_src[t]][ghost_pos[t]] == t), "
    "trigger=lambda t: ghost_src[t])" % _T,
    # ... and every row counted as done was yielded at the logged time: (stream, position) <-> time is a bijection
    "forall(lambda h, p: implies(0 <= p < ghost_done[h], 0 <= ghost_when[h][p] < %s and "
    "ghost_src[ghost_when[h][p]] == h and ghost_pos[ghost_when[h][p]] == p), types={'h': 'Stream'}, "
    "trigger=lambda h, p: ghost_when[h][p])" % _T,
    "forall(lambda h: 0 <= ghost_done[h] <= len(stream_seq(h)), types={'h': 'Stream'}, "
    "trigger=lambda h: ghost_done[h])",
]
_LIVE_DONE = [
    "forall(lambda k: implies(k in %s, %s[k] in ghost_S0), trigger=lambda k: %s[k])" % (_IT, _IT, _IT),
    # a live stream stands on its first row not yet yielded; a stream of the initial set that is no longer live
    # has been yielded completely
    "forall(lambda k: implies(k in %s, ghost_done[%s[k]] == %s[%s[k]] - 1), trigger=lambda k: %s[k])"
    % (_IT, _IT, _GC, _IT, _IT),
    "forall(lambda h: implies(h in ghost_S0, (ghost_keyof[h] in %s and %s[ghost_keyof[h]] == h) or "
    "ghost_done[h] == len(stream_seq(h))), types={'h': 'Stream'}, trigger=lambda h: h in ghost_S0)" % (_IT, _IT),
]
_SORTED_OUT = [
    "forall(lambda t: implies(0 <= t and t + 1 < %s, %s >= %s), trigger=lambda t: yielded[t])"
    % (_T, _SC("yielded[t]"), _SC("yielded[t + 1]")),
    "implies(%s > 0, forall(lambda k: implies(k in %s, %s <= %s), trigger=lambda k: %s[k]))"
    % (_T, _CUR, _SC("%s[k]" % _CUR), _SC("yielded[%s - 1]" % _T), _CUR),
]

merge_loop = Contract(
    target="mokapot.utils.merge_sort#loop",
    block={"start": "while row_iterator_dict != {}", "end": "while row_iterator_dict != {}"},
    free={_IT: "dict[int,Stream]", _CUR: "dict[int,Row]", "score_column": "str", _GC: "map[Stream,int]",
          "ghost_src": "map[int,Stream]", "ghost_pos": "map[int,int]", "ghost_when": "map[Stream,map[int,int]]",
          "ghost_done": "map[Stream,int]", "ghost_keyof": "map[Stream,int]", "ghost_S0": "set[Stream]"},
    yields="Row",
    locals={"row": "opt[Row]"},
    assumes=coupling(_IT, _CUR, _GC) + [
        # what the two dict comprehensions before the loop establish: every stream of the initial set stands on its
        # first row and nothing has been yielded
        "forall(lambda k: implies(k in %s, %s[%s[k]] == 1 and %s[k] in ghost_S0), trigger=lambda k: %s[k])"
        % (_IT, _GC, _IT, _IT, _IT),
        "forall(lambda h: implies(h in ghost_S0, ghost_keyof[h] in %s and %s[ghost_keyof[h]] == h), "
        "types={'h': 'Stream'}, trigger=lambda h: h in ghost_S0)" % (_IT, _IT),
        "forall(lambda h: ghost_done[h] == 0, types={'h': 'Stream'}, trigger=lambda h: ghost_done[h])",
        "forall(lambda h: len(stream_seq(h)) >= 0, types={'h': 'Stream'}, trigger=lambda h: stream_seq(h))",
        # every input is sorted by non-increasing score (the property's precondition)
        "forall(lambda h, p: implies(0 <= p and p + 1 < len(stream_seq(h)), %s >= %s), types={'h': 'Stream'}, "
        "trigger=lambda h, p: stream_seq(h)[p + 1])"
        % (_SC("stream_seq(h)[p]"), _SC("stream_seq(h)[p + 1]")),
    ],
    ghost_at=[
        {"before": "row = get_next_row(", "do": ["let it0 = row_iterator_dict", "let cur0 = current_row_dict",
                                                "let gc0 = ghost_cursor"]},
        {"after": "row = get_next_row(", "do": [
            # stepping stones about the stream that was advanced
            "assert gK in it0 and gK in cur0 and it0[gK] == gH",
            "assert gH in ghost_S0",
            "assert ghost_keyof[gH] == gK",
            "assert ghost_done[gH] == gc0[gH] - 1",
            "assert 1 <= gc0[gH] <= len(stream_seq(gH))",
            "assert row == stream_seq(gH)[ghost_done[gH]]",
        ]},
        {"before": "yield row", "do": [
            "set ghost_src[len(yielded)] = gH",
            "set ghost_pos[len(yielded)] = ghost_done[gH]",
            "set ghost_when[gH][ghost_done[gH]] = len(yielded)",
            "set ghost_done[gH] = ghost_done[gH] + 1",
        ]},
    ],
    loops={0: Loop(invariant=coupling(_IT, _CUR, _GC) + _LOG + _LIVE_DONE + _SORTED_OUT)},
    ensures=[
        # every row of every input stream has been yielded exactly once, unmodified (log bijection + all done) ...
        "forall(lambda h: implies(h in ghost_S0, ghost_done[h] == len(stream_seq(h))), types={'h': 'Stream'}, "
        "trigger=lambda h: h in ghost_S0)",
    ] + _LOG + [
        # ... in globally non-increasing score order
        _SORTED_OUT[0],
    ],
    uses=["mokapot.utils.get_next_row"],
)

CONTRACTS = [get_next_row, merge_loop]
BOUNDED = {"module": "harness.c14"}

MUTANTS = [
    {"name": "min-instead-of-max", "target": "mokapot.utils.get_next_row",
     "find": "if max_score is None or max_score < score:", "replace": "if max_score is None or max_score > score:"},
    {"name": "exhausted-stream-kept-in-iterators", "target": "mokapot.utils.get_next_row",
     "find": "        del row_iterator_dict[max_key]\n", "replace": ""},
    {"name": "exhausted-stream-row-kept", "target": "mokapot.utils.get_next_row",
     "find": "        del current_row_dict[max_key]\n", "replace": ""},
    {"name": "returns-the-new-row", "target": "mokapot.utils.get_next_row",
     "find": "    return max_row", "replace": "    return current_row_dict.get(max_key)"},
    {"name": "last-row-of-the-merge-dropped", "target": "mokapot.utils.merge_sort#loop",
     "find": "        if row is not None:\n            yield row",
     "replace": "        if row is not None and row_iterator_dict != {}:\n            yield row"},
    {"name": "row-yielded-twice", "target": "mokapot.utils.merge_sort#loop",
     "find": "            yield row", "replace": "            yield row\n            yield row"},
    {"name": "first-row-always-wins", "target": "mokapot.utils.get_next_row",
     "find": "if max_score is None or max_score < score:", "replace": "if max_score is None:"},
]
