"""C06 - PEPs are probabilities, monotone in score, and aligned with their PSM (DESIGN.md 4.C06)."""
from pyvc.spec import Contract, Loop, Lemma, Ghost

PROPERTY = "C06"
LEVEL = "other"
EXPLANATION = (
    "Honest scope: KDE, NNLS, IRLS splines and histogram heuristics are floating-point numerics behind "
    "scipy/triqler; no contract proves them.  Deductive (thin): the ALIGNMENT clause of the qvality wrapper - given "
    "the assumed contract of triqler (PEPs of the combined list in descending score order, a function of the "
    "score value), the wrapper's sort / un-sort bookkeeping returns for input position i the PEP of scores[i], "
    "for every input order.  Everything else (range, monotonicity, finiteness, the other estimators) is decided by "
    "the bounded run on random mixtures; hist_nnls / qvalues_from_peps cannot execute under the installed SciPy.")
ASSUMPTIONS = [
    "triqler.getQvaluesFromScores(targets, decoys, includeDecoys=True): one PEP per input score, listed in "
    "descending order of the combined scores, the PEP being a function (pepfn) of the score value",
    "argsort reads off THE ascending arrangement of its argument (sorted_asc, unique); the descending arrangement "
    "of x is minus the ascending arrangement of -x; splitting an array by a mask and its complement preserves "
    "the multiset (so the combined descending list of the two parts is sorted_desc of the whole)",
    "floating point treated as real arithmetic",
]

PEPFN = Ghost("pepfn", "nd[real], nd[real], real -> real")
SORTED_DESC = Ghost("sorted_desc", "nd[real] -> nd[real]")
UNION_DESC = Ghost("union_desc", "nd[real], nd[real] -> nd[real]")

LIB_CONTRACTS = [
    Contract(target="lib:triqler.qvalues",
             params={"targetScores": "nd[real]", "decoyScores": "nd[real]", "includeDecoys": "bool",
                     "includePEPs": "bool", "tdcInput": "bool"},
             returns="tuple[nd[real],nd[real]]", skip_body=True, global_ghosts=[PEPFN, UNION_DESC],
             requires=["includeDecoys", "includePEPs"],
             ensures=[
                 "len(result[1]) == len(targetScores) + len(decoyScores)",
                 "len(union_desc(targetScores, decoyScores)) == len(targetScores) + len(decoyScores)",
                 "all(result[1][k] == pepfn(targetScores, decoyScores, union_desc(targetScores, decoyScores)[k]) "
                 "for k in range(len(result[1])))",
             ]),
]

_T, _D = "gT", "gD"

qvality_block = Contract(
    target="mokapot.peps.peps_from_scores_qvality#align",
    block={"start": "_, peps = qvalues_from_scores(", "end": "return peps_in_order"},
    free={"scores": "nd[real]", "targets": "nd[bool]"},
    returns="nd[real]",
    global_ghosts=[PEPFN, SORTED_DESC, UNION_DESC],
    # names for the array expressions the specification talks about (evaluated once, outside any quantifier)
    entry_ghost=["let gT = scores[targets]", "let gD = scores[~targets]", "let gNeg = -scores"],
    assumes=[
        "len(scores) == len(targets)", "len(scores) >= 1",
        # sorting facts (assumed, see ASSUMPTIONS): the combined descending list of a mask split is the descending
        # arrangement of the whole array, and any descending argsort reads it off
        "same(union_desc(%s, %s), sorted_desc(scores))" % (_T, _D),
        "len(sorted_desc(scores)) == len(scores)",
        "all(sorted_desc(scores)[k] == -(sorted_asc(gNeg)[k]) for k in range(len(scores)))",
        "len(%s) + len(%s) == len(scores)" % (_T, _D),
    ],
    exit_ghost=["let perm = order"],
    ensures=[
        "len(result) == len(scores)",
        # the i-th returned value belongs to the i-th input PSM, whatever the input order: stated along a
        # permutation `perm` of the positions (every position i is perm[k] for exactly one k)
        "is_perm(perm, len(scores))",
        "all(result[perm[k]] == pepfn(%s, %s, scores[perm[k]]) for k in range(len(scores)))" % (_T, _D),
    ],
    abstract_ok=["qvality.VERB = old_verbosity"],
    uses=["qvalues_from_scores=lib:triqler.qvalues"],
)

CONTRACTS = [qvality_block]
BOUNDED = {"module": "harness.c06"}

MUTANTS = [
    # inverse of fix 031451b
    {"name": "inverse-fix-no-unsort", "target": "mokapot.peps.peps_from_scores_qvality#align",
     "find": "    peps_in_order[order] = peps\n    return peps_in_order", "replace": "    peps_in_order = peps\n    return peps_in_order"},
    {"name": "unsort-gathers-instead-of-scatters", "target": "mokapot.peps.peps_from_scores_qvality#align",
     "find": "    peps_in_order[order] = peps\n", "replace": "    peps_in_order = peps[order]\n"},
    {"name": "ascending-order", "target": "mokapot.peps.peps_from_scores_qvality#align",
     "find": "order = np.argsort(-np.asarray(scores, dtype=float), kind=\"stable\")",
     "replace": "order = np.argsort(np.asarray(scores, dtype=float), kind=\"stable\")"},
]
