"""C10 - every well-formed PIN/Parquet PSM table parses into a faithful dataset (DESIGN.md 4.C10)."""
from pyvc.spec import Contract, Loop, Lemma, Ghost

PROPERTY = "C10"
LEVEL = "other"
EXPLANATION = (
    "Deductive: obligations generated from the current source of create_chunks_with_identifier / create_chunks "
    "(column-chunk arithmetic for all (n_features, n_identifier_columns, chunk_size)) and the column look-up "
    "helpers, discharged by z3/cvc5.  Bounded: read_percolator on generated tables (stand-in, never counted "
    "as proved).")
ASSUMPTIONS = [
    "python int = mathematical integer; list slicing/concatenation as in DESIGN.md 2.3",
    "typeguard decorators dropped by the extraction",
]

create_chunks_with_identifier = Contract(
    target="mokapot.parsers.pin.create_chunks_with_identifier",
    params={"data": "list[Col]", "identifier_column": "list[Col]", "chunk_size": "int"},
    requires=[
        "chunk_size >= 1",
        "len(identifier_column) >= 1",
        "len(identifier_column) <= chunk_size",
    ],
    returns="list[list[Col]]",
    ensures=[
        # every feature column is scanned, at its natural place (nothing lost, order kept)
        "all(trig(result[p // chunk_size][p % chunk_size] == data[p], data[p]) for p in range(len(data)))",
        # no empty column chunk is handed to the reader
        "all(len(result[j]) >= 1 for j in range(len(result)))",
        # the identifier columns are never split: some chunk holds all of them, contiguously and in order
        "any(is_infix(identifier_column, result[q]) for q in range(len(result)))",
    ],
    witness={
        # proof hint (witness for the existential): the identifiers are either a chunk of their own at the end
        # or sit at their natural position behind the features
        "any(is_infix(identifier_column, result[q]) for q in range(len(result)))": [
            {"q": "len(result) - 1", "off": "0"},
            {"q": "len(data) // chunk_size", "off": "len(data) % chunk_size"},
        ],
    },
    uses=["mokapot.utils.create_chunks"],
    replay="harness.c10:chunks_ident_adapter",
)

CONTRACTS = [create_chunks_with_identifier]
ALSO_VERIFY = [("shared", "mokapot.utils.create_chunks")]
BOUNDED = {"module": "harness.c10"}
