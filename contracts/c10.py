"""C10 - every well-formed PIN/Parquet PSM table parses into a faithful dataset (DESIGN.md 4.C10)."""
from pyvc.spec import Contract, Loop, Lemma, Ghost

PROPERTY = "C10"
LEVEL = "other"
EXPLANATION = (
    "Deductive: obligations generated from the current source of create_chunks_with_identifier / create_chunks "
    "(column-chunk arithmetic for all (n_features, n_identifier_columns, chunk_size)) and the column look-up "
    "helpers, discharged by z3/cvc5.  Bounded: read_percolator on generated tables (stand-in, never counted "
    "as proved).")
ASSUMPTIONS = [
    "python int = mathematical integer; list slicing/concatenation as in DESIGN.md 2.3",
    "typeguard decorators dropped by the extraction",
]

create_chunks_with_identifier = Contract(
    target="mokapot.parsers.pin.create_chunks_with_identifier",
    params={"data": "list[Col]", "identifier_column": "list[Col]", "chunk_size": "int"},
    requires=[
        "chunk_size >= 1",
        "len(identifier_column) >= 1",
        "len(identifier_column) <= chunk_size",
    ],
    returns="list[list[Col]]",
    ensures=[
        # every feature column is scanned, at its natural place (nothing lost, order kept)
        "all(trig(result[p // chunk_size][p % chunk_size] == data[p], data[p]) for p in range(len(data)))",
        # no empty column chunk is handed to the reader
        "all(len(result[j]) >= 1 for j in range(len(result)))",
        # the identifier columns are never split: some chunk holds all of them, contiguously and in order
        "any(is_infix(identifier_column, result[q]) for q in range(len(result)))",
    ],
    witness={
        # proof hint (witness for the existential): the identifiers are either a chunk of their own at the end
        # or sit at their natural position behind the features
        "any(is_infix(identifier_column, result[q]) for q in range(len(result)))": [
            {"q": "len(result) - 1", "off": "0"},
            {"q": "len(data) // chunk_size", "off": "len(data) % chunk_size"},
        ],
    },
    uses=["mokapot.utils.create_chunks"],
    replay="harness.c10:chunks_ident_adapter",
)

_C = "target_column"
_IS_T = "(fr_bool(old(data), %s)[i] if fr_isbool(old(data), %s) else fr_int(old(data), %s)[i] == 1)" % (_C, _C, _C)

convert_targets_column = Contract(
    target="mokapot.utils.convert_targets_column",
    params={"data": "Frame", "target_column": "str"},
    returns="Frame",
    modifies=["data"],            # the column is replaced in place and the same frame is returned
    raises={"ValueError": "not fr_isbool(data, target_column) and any(fr_int(data, target_column)[i] < -1 or "
                          "fr_int(data, target_column)[i] > 1 for i in range(fr_len(data)))"},
    ensures=[
        "result == data",
        # rows are never dropped
        "fr_len(result) == fr_len(old(data))",
        # targets are exactly the rows labelled 1 / True; 0 and -1 are decoys
        "fr_isbool(result, target_column)",
        "all(fr_bool(result, target_column)[i] == %s for i in range(fr_len(old(data))))" % _IS_T,
        # nothing outside [-1, 1] was accepted
        "implies(not fr_isbool(old(data), target_column), all(-1 <= fr_int(old(data), target_column)[i] <= 1 "
        "for i in range(fr_len(old(data)))))",
        # no other column is touched
        "forall(lambda d: implies(d != target_column, fr_isbool(result, d) == fr_isbool(old(data), d) and "
        "fr_int(result, d) == fr_int(old(data), d) and fr_bool(result, d) == fr_bool(old(data), d)), "
        "types={'d': 'str'})",
    ],
    replay="harness.c10:convert_targets_adapter",
)

CONTRACTS = [create_chunks_with_identifier, convert_targets_column]
ALSO_VERIFY = [("shared", "mokapot.utils.create_chunks")]
BOUNDED = {"module": "harness.c10"}

MUTANTS = [
    {"name": "inverse-fix-identifier-chunks", "target": "mokapot.parsers.pin.create_chunks_with_identifier",
     "find": "    if len(data) % chunk_size + len(identifier_column) <= chunk_size:",
     "replace": "    if (len(data) + len(identifier_column)) % chunk_size != 1:"},
    {"name": "identifier-first", "target": "mokapot.parsers.pin.create_chunks_with_identifier",
     "find": "        data_copy = data + identifier_column", "replace": "        data_copy = identifier_column + data"},
    {"name": "labels-zero-is-target", "target": "mokapot.utils.convert_targets_column",
     "find": "    data[target_column] = labels == 1", "replace": "    data[target_column] = labels >= 0"},
    {"name": "labels-range-not-checked", "target": "mokapot.utils.convert_targets_column",
     "find": "    if any(labels < -1) or any(labels > 1):", "replace": "    if any(labels < -1):"},
    {"name": "chunks-overlap", "target": "mokapot.utils.create_chunks",
     "find": "for i in range(0, len(data), chunk_size)]", "replace": "for i in range(0, len(data), chunk_size - 1)]"},
]
