"""C01 - TDC q-values equal the defining formula (DESIGN.md 4.C01, Appendix A.1)."""
from pyvc.spec import Contract, Loop, Lemma, Ghost

PROPERTY = "C01"
LEVEL = "other"
EXPLANATION = (
    "Deductive core: _fdr2qvalue (per-tie-group FDR at the END of the group, running minimum from worst to best, "
    "for all group structures), _update_labels (label rule) and the straight-line composition in tdc, against "
    "declarative spec functions.  Bounded stand-in: the real (numba-compiled, float32) tdc on all weak orderings "
    "x labelings x directions for small n, against a brute-force evaluation of the defining formula.")
ASSUMPTIONS = [
    "floating point treated as real arithmetic (the float32 FDR buffer of tdc is not modelled; covered by the bounded run)",
    "numba-compiled _fdr2qvalue behaves like the CPython reading of its source on int64/float64 (decorator dropped)",
    "scores finite (no NaN/inf)",
]

_fdr2qvalue = Contract(
    target="mokapot.qvalues._fdr2qvalue",
    params={"fdr": "nd[real]", "num_total": "nd[int]", "met": "nd[real]", "indices": "nd[int]"},
    returns="nd[real]",
    ghosts=[
        # start(k): first position of tie group k (prefix sums of the group sizes)
        Ghost("start", "int -> int", axioms=[
            "start(0) == 0",
            "forall(lambda k: implies(0 <= k < len(indices), start(k + 1) == start(k) + indices[k]), "
            "trigger=lambda k: start(k + 1))",
        ]),
        # runmin(k): min(1, fdr at the head of groups 0..k) - the head is the END of the group in best-to-worst order
        Ghost("runmin", "int -> real", axioms=[
            "runmin(-1) == 1",
            "forall(lambda k: implies(0 <= k < len(indices), "
            "runmin(k) == (fdr[start(k)] if fdr[start(k)] < runmin(k - 1) else runmin(k - 1))), "
            "trigger=lambda k: runmin(k))",
        ]),
    ],
    requires=[
        "len(fdr) == len(num_total)", "len(fdr) >= 1",
        "len(met) == len(indices)", "len(met) >= 1",
        "all(indices[k] >= 1 for k in range(len(indices)))",
        "start(len(indices)) == len(fdr)",
        # flipped cumulative totals: strictly decreasing
        "forall(lambda p, q: implies(0 <= p < q < len(fdr), num_total[p] > num_total[q]), "
        "trigger=lambda p, q: (num_total[p], num_total[q]))",
    ],
    ensures=[
        "len(result) == len(fdr)",
        "forall(lambda k, p: implies(0 <= k < len(indices) and start(k) <= p < start(k + 1), "
        "result[p] == runmin(k)), trigger=lambda k, p: (start(k), result[p]))",
    ],
    lemmas=[
        Lemma("start_mono", {"a": "int", "b": "int"},
              requires=["0 <= a <= b <= len(indices)"], ensures=["start(a) <= start(b)"],
              induct="b", hints=["requires"], auto=True, triggers=[["start(a)", "start(b)"]]),
    ],
    loops={0: Loop(
        counter="it",
        invariant=[
            "prev_idx == start(idx)",
            "min_q == runmin(idx - 1)",
            "len(qvals) == len(fdr)",
            "forall(lambda k, p: implies(0 <= k < idx and start(k) <= p < start(k + 1), qvals[p] == runmin(k)), "
            "trigger=lambda k, p: (start(k), qvals[p]))",
        ],
        ghost_pre=["lemma start_mono(idx + 1, len(indices))", "lemma start_mono(0, idx)"],
    )},
    locals={"min_q": "real"},
    replay="harness.c01:fdr2qvalue_adapter",
    notes="group_fdr is dead state (assigned, never read); it is executed but not constrained",
)

# spec function shared by tdc and its callers: tdc_q(scores, target, desc)[i] is the q-value of PSM i
TDC_Q = Ghost("tdc_q", "nd[real], nd[bool], bool -> nd[real]")
# the same spec function together with its extensionality stipulation (for callers that rebuild the label vector)
TDC_Q_EXT = Ghost("tdc_q", "nd[real], nd[bool], bool -> nd[real]", axioms=[
    # the spec function depends on the CONTENT of the label vector only
    "forall(lambda s, A, B, d: implies(A == B, same(tdc_q(s, A, d), tdc_q(s, B, d))), "
    "types={'s': 'nd[real]', 'A': 'nd[bool]', 'B': 'nd[bool]', 'd': 'bool'}, "
    "trigger=lambda s, A, B, d: (tdc_q(s, A, d), tdc_q(s, B, d)))",
    # one q-value per score
    "forall(lambda s, A, d: len(tdc_q(s, A, d)) == len(s), types={'s': 'nd[real]', 'A': 'nd[bool]', 'd': 'bool'}, "
    "trigger=lambda s, A, d: tdc_q(s, A, d))",
])

tdc = Contract(
    target="mokapot.qvalues.tdc",
    params={"scores": "nd[real]", "target": "nd[bool]", "desc": "bool"},
    defaults={"desc": "True"},
    returns="nd[real]",
    global_ghosts=[TDC_Q],
    requires=["len(scores) == len(target)", "len(scores) >= 1"],
    ensures=[
        "len(result) == len(scores)",
        "all(result[i] == tdc_q(scores, target, desc)[i] for i in range(len(scores)))",
        "len(tdc_q(scores, target, desc)) == len(scores)",
    ],
    skip_body=True,
    notes="interface contract used by callers; the composition inside tdc is bounded-only so far (harness.c01)",
)

_LABEL_RULE = ("all(result[i] == (-1 if not targets[i] else (1 if tdc_q(scores, targets, desc)[i] <= eval_fdr else 0)) "
               "for i in range(len(scores)))")

_update_labels = Contract(
    target="mokapot.dataset._update_labels",
    params={"scores": "nd[real]", "targets": "nd[bool]", "eval_fdr": "real", "desc": "bool"},
    defaults={"eval_fdr": "0.01", "desc": "True"},
    tags={"scores": ["np.ndarray"], "targets": ["np.ndarray"]},
    returns="nd[real]",
    global_ghosts=[TDC_Q],
    requires=["len(scores) == len(targets)", "len(scores) >= 1"],
    ensures=["len(result) == len(scores)", _LABEL_RULE],
    uses=["mokapot.qvalues.tdc"],
    replay="harness.c01:update_labels_adapter",
)

_update_labels_series = Contract(
    target="mokapot.dataset._update_labels#series",
    params={"scores": "nd[real]", "targets": "nd[bool]", "eval_fdr": "real", "desc": "bool"},
    tags={"scores": ["pd.Series"], "targets": ["pd.Series"]},
    returns="nd[real]",
    global_ghosts=[TDC_Q],
    requires=["len(scores) == len(targets)", "len(scores) >= 1"],
    ensures=["len(result) == len(scores)", _LABEL_RULE],
    uses=["mokapot.qvalues.tdc"],
    notes="same function entered with pandas Series arguments (the isinstance branches taken)",
)

CONTRACTS = [_fdr2qvalue, tdc, _update_labels, _update_labels_series]
BOUNDED = {"module": "harness.c01"}

MUTANTS = [
    {"name": "fdr-at-group-start", "target": "mokapot.qvalues._fdr2qvalue",
     "find": "curr_fdr = fdr_group[np.argmax(n_group)]", "replace": "curr_fdr = fdr_group[len(n_group) - 1]"},
    {"name": "running-max", "target": "mokapot.qvalues._fdr2qvalue",
     "find": "if curr_fdr < min_q:", "replace": "if curr_fdr > min_q:"},
    {"name": "no-running-min", "target": "mokapot.qvalues._fdr2qvalue",
     "find": "qvals[group] = min_q", "replace": "qvals[group] = curr_fdr"},
    {"name": "group-off-by-one", "target": "mokapot.qvalues._fdr2qvalue",
     "find": "next_idx = prev_idx + indices[idx]", "replace": "next_idx = prev_idx + indices[idx] - 1"},
    {"name": "min_q-starts-at-zero", "target": "mokapot.qvalues._fdr2qvalue",
     "find": "min_q = 1\n", "replace": "min_q = 0\n"},
]

MUTANTS += [
    {"name": "labels-strict-threshold", "target": "mokapot.dataset._update_labels",
     "find": "unlabeled = np.logical_and(qvals > eval_fdr, targets)",
     "replace": "unlabeled = np.logical_and(qvals >= eval_fdr, targets)"},
    {"name": "labels-decoys-zero", "target": "mokapot.dataset._update_labels",
     "find": "new_labels[~targets] = -1", "replace": "new_labels[~targets] = 0"},
    {"name": "labels-order-swapped", "target": "mokapot.dataset._update_labels",
     "find": "new_labels[~targets] = -1\n    new_labels[unlabeled] = 0",
     "replace": "new_labels[unlabeled] = 0\n    new_labels[targets] = 1"},
]
