"""C12 - training feeds the estimator rows and labels of the same PSM, in any order (DESIGN.md 4.C12)."""
from pyvc.spec import Contract, Loop, Lemma, Ghost

PROPERTY = "C12"
LEVEL = "other"
EXPLANATION = (
    "Deductive: the index bookkeeping of Model.fit (shuffle, un-shuffle, re-shuffle) as a block contract with a "
    "ghost row map: at every label update the score at position i is the score of dataset row i, and at every "
    "estimator fit position j of the feature matrix and of the label vector belong to the same PSM - for "
    "shuffle on and off, for every permutation drawn and every iteration count.  Bounded stand-in: recording "
    "estimators through Model.fit / predict / save / load.")
ASSUMPTIONS = [
    "estimator: decision_function / predict_proba are row-wise functions of the fitted state (est_score); fit() "
    "changes only the estimator",
    "Generator.permutation(arange(n)) returns a permutation of range(n); argsort of a permutation is its inverse",
    "the scaler, _find_hyperparameters, _get_weights and logging are outside the block under contract",
]

EST_SCORE = Ghost("est_score", "Est, FRow -> real")
PSM_LABELS = Ghost("psm_labels", "Psms, nd[real], real -> nd[real]")

LIB_CONTRACTS = [
    Contract(target="lib:Rng.permutation", params={"self": "Rng", "x": "nd[int]"}, returns="nd[int]",
             modifies=["self"], skip_body=True,
             requires=["all(x[i] == i for i in range(len(x)))"],
             ensures=["is_perm(result, len(x))"],
             notes="numpy Generator.permutation of arange(n): a permutation of range(n); advances the generator"),
    Contract(target="lib:Est.fit", params={"self": "Est", "X": "nd[FRow]", "y": "nd[real]"}, modifies=["self"],
             skip_body=True, requires=["len(X) == len(y)"], ensures=[],
             notes="estimator.fit(X, y): needs one label per sample row; changes the estimator only"),
    Contract(target="lib:Psms._update_labels", params={"self": "Psms", "scores": "nd[real]", "eval_fdr": "real"},
             returns="nd[real]", skip_body=True, global_ghosts=[PSM_LABELS],
             requires=[], ensures=["len(result) == len(scores)", "result == psm_labels(self, scores, eval_fdr)"],
             notes="LinearPsmDataset._update_labels(scores, eval_fdr): labels in dataset order from scores in "
                   "dataset order (forwarding wrapper of dataset._update_labels, C01)"),
]

get_scores = Contract(
    target="mokapot.model._get_scores",
    params={"model": "Est", "feat": "nd[FRow]"}, returns="nd[real]", skip_body=True,
    global_ghosts=[EST_SCORE],
    ensures=["len(result) == len(feat)", "all(result[j] == est_score(model, feat[j]) for j in range(len(feat)))"],
    notes="assumed: scoring is row-wise in the feature matrix",
)

find_hyper = Contract(
    target="mokapot.model._find_hyperparameters",
    params={"model": "ModelObj", "features": "nd[FRow]", "labels": "nd[real]"}, returns="Est", skip_body=True,
    ensures=[], notes="assumed: returns an estimator (grid search not modelled)",
)

_N = "len(old(start_labels))"

fit_block = Contract(
    target="mokapot.model.Model.fit#train",
    block={"start": "shuffled_idx = self.rng.permutation", "end": "for i in range(self.max_iter)"},
    free={"norm_feat": "nd[FRow]", "start_labels": "nd[real]", "psms": "Psms", "self": "ModelObj"},
    self_fields={"rng": "Rng", "shuffle": "bool", "max_iter": "int", "train_fdr": "real"},
    global_ghosts=[EST_SCORE, PSM_LABELS],
    assumes=["len(norm_feat) == len(start_labels)", "len(start_labels) >= 1", "self.max_iter >= 0"],
    locals={"ghost_L": "nd[real]", "num_passed": "list[int]", "target": "nd[real]"},
    raises={"RuntimeError": "True"},
    ghost_at=[
        {"after": "if self.shuffle:", "do": [
            # the row map: position j of the (possibly shuffled) arrays holds dataset row shuffled_idx[j]
            "assert len(shuffled_idx) == %s" % _N,
            "assert all(0 <= shuffled_idx[j] < %s for j in range(%s))" % (_N, _N),
            "assert all(norm_feat[j] == old(norm_feat)[shuffled_idx[j]] for j in range(%s))" % _N,
            "assert all(start_labels[j] == old(start_labels)[shuffled_idx[j]] for j in range(%s))" % _N,
            # original_idx undoes it
            "assert len(original_idx) == %s" % _N,
            "assert all(0 <= original_idx[i] < %s and shuffled_idx[original_idx[i]] == i for i in range(%s))"
            % (_N, _N),
        ]},
        {"before": "target = start_labels", "do": ["let ghost_L = old(start_labels)"]},
        {"before": "model.fit(samples, iter_targ)", "do": [
            # the estimator receives one label per feature row (both filtered by the same mask)
            "assert len(samples) == len(iter_targ)",
        ]},
        {"before": "target = psms._update_labels(", "do": [
            # THE alignment obligation: the score handed over at position i is the score of dataset row i
            "assert len(scores) == %s" % _N,
            "assert all(scores[i] == est_score(model, old(norm_feat)[i]) for i in range(%s))" % _N,
        ]},
        {"after": "target = psms._update_labels(", "do": ["let ghost_L = target"]},
    ],
    loops={0: Loop(invariant=[
        "len(target) == %s" % _N,
        # position j of the label vector carries the label of the PSM whose features sit at position j
        "all(target[j] == ghost_L[shuffled_idx[j]] for j in range(%s))" % _N,
        "len(ghost_L) == %s" % _N,
        "len(num_passed) == i",
    ])},
    ensures=[],
)

CONTRACTS = [fit_block, get_scores, find_hyper]
BOUNDED = {"module": "harness.c12"}

MUTANTS = [
    # inverse of fix aed7d80: identity maps not installed when shuffle is off
    {"name": "inverse-fix-shuffle-false", "target": "mokapot.model.Model.fit#train",
     "find": "        else:\n            # Without shuffling, the index maps must be the identity.\n"
             "            shuffled_idx = np.arange(len(start_labels))\n            original_idx = shuffled_idx\n",
     "replace": ""},
    {"name": "unshuffle-with-wrong-map", "target": "mokapot.model.Model.fit#train",
     "find": "            scores = scores[original_idx]", "replace": "            scores = scores[shuffled_idx]"},
    {"name": "reshuffle-with-wrong-map", "target": "mokapot.model.Model.fit#train",
     "find": "            target = target[shuffled_idx]", "replace": "            target = target[original_idx]"},
    {"name": "no-unshuffle", "target": "mokapot.model.Model.fit#train",
     "find": "            scores = scores[original_idx]\n", "replace": ""},
    {"name": "no-reshuffle", "target": "mokapot.model.Model.fit#train",
     "find": "            target = target[shuffled_idx]\n", "replace": ""},
    {"name": "labels-not-shuffled", "target": "mokapot.model.Model.fit#train",
     "find": "            start_labels = start_labels[shuffled_idx]\n", "replace": ""},
    {"name": "labels-filtered-by-other-mask", "target": "mokapot.model.Model.fit#train",
     "find": "            iter_targ = (target[target.astype(bool)] + 1) / 2",
     "replace": "            iter_targ = (target[target == 1] + 1) / 2"},
]
