"""C08 - fixed seed gives bit-identical results across runs and interpreter sessions (DESIGN.md 4.C08, 5)."""
from pyvc.spec import Contract, Loop, Lemma, Ghost

PROPERTY = "C08"
LEVEL = "other"
EXPLANATION = (
    "The statement relates TWO executions; a function contract describes one, and determinism of each modelled "
    "function is built into the verifier's semantics - so the headline claim (bit-identity across interpreter "
    "sessions, sklearn/numpy numerics, thread timing) is out of reach of contracts.  What IS claimed: FRAME "
    "obligations - every function on the seeded path declares which sources of run-to-run nondeterminism it may "
    "read (global RNG state, fresh entropy, the string hash seed via set iteration / hash(), directory listing "
    "order); the current source is scanned and every tagged read outside the declared frame fails an obligation "
    "(syntactic, over-approximating); plus one ordinary block contract, brew#rng_handoff (the seeded generator "
    "reaches every model object with an estimator attribute).  Bounded stand-in: the same analysis repeated in process and in fresh "
    "interpreters with different PYTHONHASHSEED, all orders of the returned models fed back.")
ASSUMPTIONS = [
    "the frame analysis is syntactic: it sees direct calls (np.random.*, random.*, hash(), set iteration idioms, "
    "glob/listdir, DataFrame.sample without random_state) in the listed functions only; reads hidden behind "
    "other calls, and nondeterminism inside numpy/sklearn/BLAS, are not seen",
    "an explicit numpy Generator passed as argument is the only declared randomness of the seeded path",
]

# the seeded generator of brew reaches the model: every object that looks like a single (untrained) model - it
# has an `estimator` attribute - gets brew's generator, whatever its class; a list of trained models is left alone
handoff = Contract(
    target="mokapot.brew.brew#rng_handoff",
    block={"start": "try:", "start_contains": "model.estimator", "end": "try:", "end_contains": "model.estimator"},
    free={"model": "ModelObj", "rng": "Gen", "model.rng": "Gen"},
    fields={"ModelObj.estimator": "maybe Est"},
    exit_ghost=["let out_rng = model.rng"],
    ensures=["implies(has_attr(model, 'estimator'), out_rng == rng)"],
)
CONTRACTS = [handoff]
# function -> declared frame: {tag: justification}.  An empty dict = reads nothing but its arguments / generator.
FRAMES = {
    "mokapot.brew.brew": {},
    "mokapot.brew.make_train_sets": {
        "HASHSEED": "list(set(range(...)) - set(idx)) iterates a set of INTEGERS (hash = value, independent of "
                    "PYTHONHASHSEED); the order only affects row order before reindex / a seeded rng.choice"},
    "mokapot.brew._predict": {},
    "mokapot.brew._fit_model": {},
    "mokapot.dataset.OnDiskPsmDataset._split": {},
    "mokapot.dataset.LinearPsmDataset._update_labels": {},
    "mokapot.dataset._update_labels": {},
    "mokapot.dataset.calibrate_scores": {},
    "mokapot.qvalues.tdc": {},
    "mokapot.model._get_starting_labels": {},
    "mokapot.model.PercolatorModel.__init__": {},
    "mokapot.confidence.LinearConfidence._assign_confidence": {},
    "mokapot.parsers.pin.concat_and_reindex_chunks": {},
    "mokapot.model.Model.fit": {},
    "mokapot.model._find_hyperparameters": {},
    "mokapot.utils.groupby_max": {},
    "mokapot.parsers.pin.parse_in_chunks": {},
    "mokapot.parsers.pin.get_rows_from_dataframe": {
        "HASHSEED": "list(set(train) & set(chunk.index)) iterates a set of INTEGER row labels; the order is "
                    "normalised by concat(...).reindex(orig_idx) in concat_and_reindex_chunks"},
    "mokapot.confidence.assign_confidence": {},
    "mokapot.confidence.create_sorted_file_iterator": {},
    "mokapot.picked_protein.picked_protein": {},
    "mokapot.picked_protein.group_without_decoys": {},
    "mokapot.picked_protein.group_with_decoys": {},
    "mokapot.parsers.fasta._parse_fasta_files": {},
    "mokapot.parsers.fasta.read_fasta": {
        "HASHSEED": "iterates dictionaries / sets of protein and peptide names built from the parsed entries; the "
                    "resulting maps are compared as sets of members (C16), their iteration order is that of the "
                    "FASTA entries"},
    "mokapot.parsers.pin.drop_missing_values_and_fill_spectra_dataframe": {
        "HASHSEED": "list(set(column) - set(spectra)) orders the feature names by string hash; harmless only because "
                    "the missing-value flags are aligned BY NAME (pd.concat) - checked across hash seeds by the "
                    "bounded run"},
    "mokapot.parsers.fasta._group_proteins": {
        "HASHSEED": "iterates sets of protein names; the grouping as SETS is order independent (C16, bounded)"},
}
# functions that draw from the global RNG BY DESIGN (C18 quantifies over any RNG state; the CLI seeds the global
# RNG before they run); listed so that the frame analysis documents them rather than hiding them
FRAMES_BY_DESIGN = {
    "mokapot.parsers.fasta._shuffle_proteins": {"GLOBAL_RNG": "np.random.permutation: decoy shuffling uses the "
                                                               "global RNG, seeded by the CLI (np.random.seed)"},
    "mokapot.peptides.match_decoy": {"GLOBAL_RNG": "targets.sample(frac=1): global RNG, seeded by the CLI; its "
                                                   "input order is hash-seed independent since repo fix 0aea7e5 "
                                                   "(sorted target peptides)"},
}
BOUNDED = {"module": "harness.c08"}

MUTANTS = [
    {"name": "generator-not-handed-to-the-model", "target": "mokapot.brew.brew#rng_handoff",
     "find": "        model.rng = rng\n", "replace": "        pass\n"},
    {"name": "model-gets-a-fresh-generator", "target": "mokapot.brew.brew#rng_handoff",
     "find": "        model.rng = rng\n", "replace": "        model.rng = np.random.default_rng()\n"},
]
