"""C03 - competition and rollup keep exactly the best PSM per spectrum / per entity (DESIGN.md 4.C03).

Deductive core: the de-duplication loop of mokapot.confidence.assign_confidence (block contract).  The loop scans
ONE stream of rows (the merged, score-sorted file iterator; its order is C14's postcondition) and, per level,
writes the rows whose level key has not been seen before.  Proved for every stream, every list of levels that
starts with "psms", every chunk size and both settings of the de-duplication switch:

  * per level the writer receives, in stream order, exactly the rows at the logged stream positions ghost_em[L]
    (strictly increasing; every written row IS a row of the stream - identifier, peptide, proteins and score of
    one and the same input PSM as far as the row object goes);
  * no two written rows of a level share the level key (the key is a function HK of the row and of the level's
    hash columns);
  * every candidate row (every row at the PSM level; at a higher level every row retained at the PSM level) is
    represented by a written row with the same key that stands NOT LATER in the stream - with the stream in
    non-increasing score order this is "a highest-scoring one";
  * higher levels only hold rows retained at the PSM level; with de-duplication off every row is written at the
    PSM level.
"""
from pyvc.spec import Contract, Loop, Lemma, Ghost

PROPERTY = "C03"
LEVEL = "other"
EXPLANATION = (
    "Deductive: the first-seen-wins de-duplication loop of assign_confidence over an abstract row stream with a "
    "ghost emission log per level (positions written, key -> first position), including the chunked flushing "
    "into the per-level writers and the final flush.  Not within reach (bounded only): the per-chunk sort and "
    "merge that produce the stream (C14 covers the merge), the q-value/PEP columns and the target/decoy split "
    "of LinearConfidence (pandas), several collections, the stand-alone rollup tool.")
ASSUMPTIONS = [
    "the level list has no duplicates and none of the rollup levels is called 'psms' (level names are derived from "
    "distinct user-supplied level column names); levels[0] == 'psms' IS proved from the construction of the list",
    "TabularDataWriter.from_suffix returns a distinct writer object per level; a writer's content (ghost sink) "
    "changes only through append_data, which appends the rows in order",
    "get_dataframe_from_records(records, ...) holds the records as rows, in order (pandas from_records + rename; "
    "the column mapping itself is bounded-only)",
    "row.get(column) and str(list) are functions of their arguments; the hash string of a row at a level is "
    "HK(row, hash columns of the level)",
    "the row stream is a fixed sequence with a cursor (iterator protocol)",
]

R = "sorted_file_iterator.items"
KK = "(P0 + _k0)"          # stream position of the row being processed / number of rows consumed (+P0)


def KEY(L, j):
    return "HK(%s[%s], level_hash_columns[%s])" % (R, j, L)


def DD(L):
    return "(%s != 'psms' or deduplication)" % L


def CAND(L, j):
    return "(%s == 'psms' or ghost_inE['psms'][%s])" % (L, j)


def level_facts(K, sink_complete=None):
    """The per-level invariant at 'K rows consumed' for the level L = levels[li] (K may depend on li).
    sink_complete: None -> sink + batch == emitted rows; else a condition under which the batch is flushed."""
    L = "levels[li]"
    S = "ghost_sink[handles[%s]]" % L
    E = "ghost_em[%s]" % L
    out = [
        "%s in seen_level_entities and %s in batches and %s in batch_counts" % (L, L, L),
        # what reached the writer, followed by the pending batch, is the stream rows at the logged positions
        ("len(%s) + len(batches[%s]) == len(%s)" % (S, L, E)) if sink_complete is None else
        ("len(%s) + (0 if %s else len(batches[%s])) == len(%s)" % (S, sink_complete, L, E)),
        "all(%s[q] == %s[%s[q]] for q in range(len(%s)))" % (S, R, E, S),
        ("all(batches[%s][q] == %s[%s[len(%s) + q]] for q in range(len(batches[%s])))" % (L, R, E, S, L))
        if sink_complete is None else
        ("implies(not (%s), all(batches[%s][q] == %s[%s[len(%s) + q]] for q in range(len(batches[%s]))))"
         % (sink_complete, L, R, E, S, L)),
        # the log lists the written stream positions in stream order (order isomorphism position <-> output index)
        "forall(lambda i, j: implies(ghost_inE[%s][i] and ghost_inE[%s][j] and i < j, "
        "ghost_posE[%s][i] < ghost_posE[%s][j]), trigger=lambda i, j: marked('ord', li, i, j))" % (L, L, L, L),
        "forall(lambda q: implies(0 <= q < len(%s), ghost_inE[%s][%s[q]] and ghost_posE[%s][%s[q]] == q), "
        "trigger=lambda q: marked('lst', li, q))" % (E, L, E, L, E),
        "forall(lambda j: implies(ghost_inE[%s][j], P0 <= j < %s and 0 <= ghost_posE[%s][j] < len(%s) and "
        "%s[ghost_posE[%s][j]] == j), trigger=lambda j: ghost_inE[%s][j])" % (L, K, L, E, E, L, L),
        # seen keys <-> first position with that key, which was written
        "implies(%s, forall(lambda key: implies(key in seen_level_entities[%s], "
        "ghost_inE[%s][ghost_first[%s][key]] and %s == key), types={'key': 'str'}, "
        "trigger=lambda key: key in seen_level_entities[%s]))"
        % (DD(L), L, L, L, KEY(L, "ghost_first[%s][key]" % L), L),
        # a written row is the first with its key (hence no two written rows share a key)
        "implies(%s, forall(lambda j: implies(ghost_inE[%s][j], %s in seen_level_entities[%s] and "
        "ghost_first[%s][%s] == j), trigger=lambda j: marked('uniq', li, j)))"
        % (DD(L), L, KEY(L, "j"), L, L, KEY(L, "j")),
        # every candidate row is represented by a written row with the same key, not later in the stream
        "implies(%s, forall(lambda j: implies(P0 <= j < %s and %s, %s in seen_level_entities[%s] and "
        "ghost_first[%s][%s] <= j), trigger=lambda j: marked('repr', li, j)))"
        % (DD(L), K, CAND(L, "j"), KEY(L, "j"), L, L, KEY(L, "j")),
        # higher levels hold retained PSMs only
        "forall(lambda j: implies(ghost_inE[%s][j], %s), trigger=lambda j: ghost_inE[%s][j])" % (L, CAND(L, "j"), L),
        # de-duplication off: every row is written at the PSM level
        "implies(not %s, forall(lambda j: implies(P0 <= j < %s, ghost_inE[%s][j]), "
        "trigger=lambda j: ghost_inE[%s][j]))" % (DD(L), K, L, L),
    ]
    return out


def for_levels(facts):
    return ["all(%s for li in range(len(levels)))" % f for f in facts]


SHAPE = [
    "same(handles, H0)",
    "keys(batches) == levels",
    "P0 <= %s <= len(%s)" % (KK, R),
]

_ASSUMES = [
    # the level list: "psms" first (proved by the #levels block below), no duplicates (assumption, see above)
    "len(levels) >= 1 and levels[0] == 'psms'",
    "forall(lambda a, b: implies(0 <= a < b < len(levels), levels[a] != levels[b]), "
    "trigger=lambda a, b: (levels[a], levels[b]))",
    "all(levels[li] in handles and levels[li] in level_hash_columns for li in range(len(levels)))",
    # one writer object per level, nothing written yet beyond what the ghost sink holds (arbitrary old content is
    # allowed: the log starts empty and the contract speaks about what is ADDED, so require empty for simplicity)
    "forall(lambda a, b: implies(0 <= a < b < len(levels), handles[levels[a]] != handles[levels[b]]), "
    "trigger=lambda a, b: (handles[levels[a]], handles[levels[b]]))",
    "all(len(ghost_sink[handles[levels[li]]]) == 0 for li in range(len(levels)))",
    # ghost log starts empty
    "forall(lambda L: len(ghost_em[L]) == 0, types={'L': 'str'}, trigger=lambda L: ghost_em[L])",
    "forall(lambda L, j: not ghost_inE[L][j], types={'L': 'str'}, trigger=lambda L, j: ghost_inE[L][j])",
    "CONFIDENCE_CHUNK_SIZE >= 1",
]

HKG = Ghost("HK", "Row, list[str] -> str", axioms=[
    "forall(lambda data_row, cols: HK(data_row, cols) == str([data_row.get(col) for col in cols]), "
    "types={'data_row': 'Row', 'cols': 'list[str]'}, trigger=lambda data_row, cols: HK(data_row, cols))"])

_INNER_K = "(P0 + _k0 + (1 if li < _k1 else 0))"

dedup = Contract(
    target="mokapot.confidence.assign_confidence#dedup",
    block={"inside": ["for _psms, score, desc, prefix in zip(", "with create_sorted_file_iterator("],
           "start": "seen_level_entities = {", "end": "for level, batch in batches.items()"},
    free={"levels": "list[str]", "level_hash_columns": "dict[str,list[str]]",
          "sorted_file_iterator": "iter[Row]", "deduplication": "bool", "handles": "dict[str,Writer]",
          "in_metadata_columns": "list[str]", "input_output_column_mapping": "dict[str,str]",
          "_psms.target_column": "str",
          "ghost_sink": "map[Writer,list[Row]]", "ghost_em": "map[str,list[int]]",
          "ghost_inE": "map[str,map[int,bool]]", "ghost_posE": "map[str,map[int,int]]",
          "ghost_first": "map[str,map[str,int]]"},
    consts={"CONFIDENCE_CHUNK_SIZE": ("int", None)},
    locals={"seen_level_entities": "dict[str,set[str]]", "batches": "dict[str,list[Row]]",
            "batch_counts": "dict[str,int]", "psm_hash": "str", "df": "list[Row]", "psm_count": "int"},
    ghosts=[HKG],
    entry_ghost=["let P0 = sorted_file_iterator.pos", "let H0 = handles"],
    assumes=_ASSUMES,
    ghost_at=[
        {"after": "psm_hash = str(", "do": ["assert psm_hash == HK(data_row, level_hash_columns[level])"]},
        {"after": "seen_level_entities[level].add(psm_hash)", "do": ["set ghost_first[level][psm_hash] = %s" % KK]},
        {"before": "batches[level].append(data_row)", "do": [
            "set ghost_posE[level][%s] = len(ghost_em[level])" % KK,
            "set ghost_em[level] = ghost_em[level] + [%s]" % KK,
            "set ghost_inE[level][%s] = True" % KK,
            "assert len(ghost_em[level]) >= 1 and ghost_em[level][len(ghost_em[level]) - 1] == %s" % KK,
            "assert ghost_posE[level][%s] == len(ghost_em[level]) - 1 and ghost_inE[level][%s]" % (KK, KK),
        ]},
    ],
    loops={
        0: Loop(invariant=SHAPE + for_levels(level_facts(KK))),
        1: Loop(invariant=SHAPE[:2] + ["P0 <= %s < len(%s)" % (KK, R), "data_row == %s[%s]" % (R, KK),
                                       "implies(_k1 > 0, ghost_inE['psms'][%s])" % KK]
                + for_levels(level_facts(_INNER_K))),
        2: Loop(invariant=SHAPE[:2] + for_levels(level_facts("len(%s)" % R, sink_complete="li < _k2"))),
    },
    ensures=[
        # the whole stream was consumed and every level's writer holds exactly the logged rows, in stream order
        "all(len(ghost_sink[handles[levels[li]]]) == len(ghost_em[levels[li]]) for li in range(len(levels)))",
    ] + for_levels(level_facts("len(%s)" % R)[2:3] + level_facts("len(%s)" % R)[4:]),
    uses=["mokapot.utils.get_dataframe_from_records"],
)

records = Contract(
    target="mokapot.utils.get_dataframe_from_records",
    params={"records": "list[Row]", "in_columns": "list[str]", "column_mapping": "dict[str,str]",
            "target_column": "opt[str]"},
    returns="list[Row]",
    ensures=["result == records"],
    skip_body=True,
    notes="assumed: pandas DataFrame.from_records + rename; one frame row per record, in order",
)

levels_block = Contract(
    target="mokapot.confidence.assign_confidence#levels",
    block={"start": "level = 'psms'", "end": "if do_rollup:"},
    free={"do_rollup": "bool", "curr_psms.level_columns": "list[str]", "curr_psms.spectrum_columns": "list[str]"},
    locals={"levels": "list[str]", "level_hash_columns": "dict[str,list[str]]", "extra_output_columns": "list[str]",
            "level": "str", "level_columns": "list[str]"},
    abstract_ok=["level_data_path"],
    loops={0: Loop(invariant=[
        "len(levels) == 1 + _k0 and levels[0] == 'psms'",
        "all(levels[li] in level_hash_columns for li in range(len(levels)))",
        "all(levels[1 + i] == level_columns[i].lower() + 's' for i in range(_k0))",
    ])},
    ensures=[
        # what the de-duplication block assumes about the level list: "psms" first, one level per level column
        "len(levels) >= 1 and levels[0] == 'psms'",
        "len(levels) == 1 + (len(curr_psms.level_columns) if do_rollup else 0)",
        "all(levels[li] in level_hash_columns for li in range(len(levels)))",
        "implies(do_rollup, all(levels[1 + i] == curr_psms.level_columns[i].lower() + 's' "
        "for i in range(len(curr_psms.level_columns))))",
    ],
)

CONTRACTS = [records, dedup, levels_block]
BOUNDED = {"module": "harness.c03"}

MUTANTS = [
    {"name": "seen-test-against-the-psm-level-set", "target": "mokapot.confidence.assign_confidence#dedup",
     "find": "if psm_hash in seen_level_entities[level]:", "replace": "if psm_hash in seen_level_entities[\"psms\"]:"},
    {"name": "final-flush-skipped", "target": "mokapot.confidence.assign_confidence#dedup",
     "find": "                handles[level].append_data(df)\n\n            for level in levels:",
     "replace": "                pass\n\n            for level in levels:"},
    {"name": "seen-test-inverted", "target": "mokapot.confidence.assign_confidence#dedup",
     "find": "if psm_hash in seen_level_entities[level]:", "replace": "if psm_hash not in seen_level_entities[level]:"},
    {"name": "key-never-recorded", "target": "mokapot.confidence.assign_confidence#dedup",
     "find": "                        seen_level_entities[level].add(psm_hash)\n", "replace": ""},
    {"name": "losing-psm-still-rolled-up", "target": "mokapot.confidence.assign_confidence#dedup",
     "find": "                            if level == \"psms\":\n                                break\n",
     "replace": ""},
    {"name": "flushed-batch-kept", "target": "mokapot.confidence.assign_confidence#dedup",
     "find": "                        batches[level] = []\n", "replace": ""},
    {"name": "psm-hash-columns-for-every-level", "target": "mokapot.confidence.assign_confidence#dedup",
     "find": "for col in level_hash_columns[level]", "replace": "for col in level_hash_columns[\"psms\"]"},
    {"name": "rollup-levels-not-deduplicated-when-switch-off", "target": "mokapot.confidence.assign_confidence#dedup",
     "find": "if level != \"psms\" or deduplication:", "replace": "if deduplication:"},
    {"name": "row-appended-twice", "target": "mokapot.confidence.assign_confidence#dedup",
     "find": "                    batches[level].append(data_row)\n",
     "replace": "                    batches[level].append(data_row)\n                    batches[level].append(data_row)\n"},
    {"name": "psms-level-missing", "target": "mokapot.confidence.assign_confidence#levels",
     "find": "    levels = [level]\n", "replace": "    levels = []\n"},
    {"name": "rollup-level-without-hash-columns", "target": "mokapot.confidence.assign_confidence#levels",
     "find": "            level_hash_columns[level] = [level_column]\n", "replace": ""},
    {"name": "dedup-switch-ignored", "target": "mokapot.confidence.assign_confidence#dedup",
     "find": "if level != \"psms\" or deduplication:", "replace": "if True:"},
]
