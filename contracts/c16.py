"""C16 - protein grouping is a maximal-subset grouping with a consistent peptide map (DESIGN.md 4.C16)."""
from pyvc.spec import Contract, Loop, Lemma, Ghost

PROPERTY = "C16"
LEVEL = "other"
EXPLANATION = (
    "Mostly bounded.  _group_proteins mutates a map of sets while renaming keys by string joins; its invariant "
    "(maximality over finite-set cardinalities) is a protocol-level induction outside the verifier's reach: it "
    "is decided by the bounded run (all incidence structures of <= 3 proteins x 4 peptides, all entry orders, "
    "decoy layouts; hash seeds in the thorough tier).  Deductive: the two simple dictionary loops of read_fasta - "
    "(1) target/decoy pairing: exactly the proteins whose name does not start with the decoy prefix are mapped, "
    "each to prefix + name, with the has_targets / has_decoys flags; (2) unique vs shared split: exactly the "
    "peptides held by one group are recorded unique (mapped to that group), all others shared.")
ASSUMPTIONS = [
    "strings abstract (startswith, + as in pyvc/libstr.py); a group's protein set is an opaque finite set with "
    "cardinality, 'some element' and a joined string",
    "dict iteration follows insertion order; the loops do not mutate the dictionary they iterate",
]

_DONE = "key_pos(proteins, n) < _k0"

pairing = Contract(
    target="mokapot.parsers.fasta.read_fasta#pairing",
    block={"start": "decoy_map = {}", "end": "for prot_name in proteins:"},
    free={"proteins": "dict[str,StrSet]", "decoy_prefix": "str"},
    locals={"decoy_map": "dict[str,str]", "no_decoys": "int", "has_decoys": "bool", "has_targets": "bool"},
    ensures=[
        # exactly the target proteins (name without the decoy prefix) are paired, each with prefix + name
        "forall(lambda n: iff(n in decoy_map, n in proteins and not startswith(n, decoy_prefix)), "
        "types={'n': 'str'}, trigger=lambda n: n in decoy_map)",
        "forall(lambda n: implies(n in decoy_map, decoy_map[n] == decoy_prefix + n), types={'n': 'str'}, "
        "trigger=lambda n: decoy_map[n])",
        "iff(has_targets, any(not startswith(keys(proteins)[j], decoy_prefix) for j in range(len(keys(proteins)))))",
        "iff(has_decoys, any(not startswith(keys(proteins)[j], decoy_prefix) and "
        "(decoy_prefix + keys(proteins)[j]) in proteins for j in range(len(keys(proteins)))))",
    ],
    loops={0: Loop(invariant=[
        "forall(lambda n: iff(n in decoy_map, n in proteins and not startswith(n, decoy_prefix) and %s), "
        "types={'n': 'str'}, trigger=lambda n: n in decoy_map)" % _DONE,
        "forall(lambda n: implies(n in decoy_map, decoy_map[n] == decoy_prefix + n), types={'n': 'str'}, "
        "trigger=lambda n: decoy_map[n])",
        "iff(has_targets, any(not startswith(keys(proteins)[j], decoy_prefix) for j in range(_k0)))",
        "iff(has_decoys, any(not startswith(keys(proteins)[j], decoy_prefix) and "
        "(decoy_prefix + keys(proteins)[j]) in proteins for j in range(_k0)))",
    ])},
)

_PD = "key_pos(peptides, p) < _k0"

split = Contract(
    target="mokapot.parsers.fasta.read_fasta#split",
    block={"start": "shared_peptides = {}", "end": "for pep, prots in peptides.items():"},
    free={"peptides": "dict[str,StrSet]"},
    locals={"shared_peptides": "dict[str,str]", "unique_peptides": "dict[str,str]"},
    assumes=["forall(lambda p: implies(p in peptides, card(peptides[p]) >= 1), types={'p': 'str'}, "
             "trigger=lambda p: peptides[p])"],
    ensures=[
        # unique = exactly the peptides contained in ONE group, mapped to that group
        "forall(lambda p: iff(p in unique_peptides, p in peptides and card(peptides[p]) == 1), types={'p': 'str'}, "
        "trigger=lambda p: p in unique_peptides)",
        "forall(lambda p: implies(p in unique_peptides, unique_peptides[p] == any_of(peptides[p])), "
        "types={'p': 'str'}, trigger=lambda p: unique_peptides[p])",
        # shared = exactly the peptides contained in two or more groups
        "forall(lambda p: iff(p in shared_peptides, p in peptides and card(peptides[p]) >= 2), types={'p': 'str'}, "
        "trigger=lambda p: p in shared_peptides)",
    ],
    loops={0: Loop(invariant=[
        "forall(lambda p: iff(p in unique_peptides, p in peptides and card(peptides[p]) == 1 and %s), "
        "types={'p': 'str'}, trigger=lambda p: p in unique_peptides)" % _PD,
        "forall(lambda p: implies(p in unique_peptides, unique_peptides[p] == any_of(peptides[p])), "
        "types={'p': 'str'}, trigger=lambda p: unique_peptides[p])",
        "forall(lambda p: iff(p in shared_peptides, p in peptides and card(peptides[p]) >= 2 and %s), "
        "types={'p': 'str'}, trigger=lambda p: p in shared_peptides)" % _PD,
    ])},
)

CONTRACTS = [pairing, split]
BOUNDED = {"module": "harness.c16"}

MUTANTS = [
    {"name": "prefix-anywhere-in-name", "target": "mokapot.parsers.fasta.read_fasta#pairing",
     "find": "        if not prot_name.startswith(decoy_prefix):", "replace": "        if not prot_name.endswith(decoy_prefix):"},
    {"name": "decoy-name-suffix", "target": "mokapot.parsers.fasta.read_fasta#pairing",
     "find": "            decoy = decoy_prefix + prot_name", "replace": "            decoy = prot_name + decoy_prefix"},
    {"name": "two-groups-still-unique", "target": "mokapot.parsers.fasta.read_fasta#split",
     "find": "        if len(prots) == 1:", "replace": "        if len(prots) <= 2:"},
    {"name": "shared-and-unique-swapped", "target": "mokapot.parsers.fasta.read_fasta#split",
     "find": "        if len(prots) == 1:", "replace": "        if len(prots) != 1:"},
]
